#!/bin/bash
# Demonstrations, on the real breadlog binary, of the genuine defects the checks reported on the
# pinned tree (before the "fix:" commits).  usage: demo.sh <path-to-breadlog-binary>
# Each case prints DEFECT <id> <what> when the defective behaviour shows, OK <id> otherwise.
B=${1:-/repo/target/debug/breadlog}
W=$(mktemp -d /var/tmp/bl-demo.XXXXXX)
trap 'rm -rf $W' EXIT
mk() { # dir structured use_cache
  rm -rf $W/$1; mkdir -p $W/$1/src
  printf 'source_dir: src\nuse_cache: %s\nrust:\n  structured: %s\n  log_macros:\n    - module: log\n      name: info\n' "$3" "$2" > $W/$1/Breadlog.yaml
}
# --- C01/C17: id arithmetic overflows at the u32 boundary (scan max + 1)
mk c01a false false
printf 'fn f(){ info!("[ref: 4294967295] a"); info!("b"); }\n' > $W/c01a/src/a.rs
$B --config $W/c01a/Breadlog.yaml >$W/out 2>&1; rc=$?
if grep -q "panicked" $W/out || grep -q '\[ref: 0\]' $W/c01a/src/a.rs; then echo "DEFECT C01 scan-max+1 overflows (rc=$rc: $(grep -o 'panicked.*' $W/out | head -1)$(grep -o '\[ref: 0\][^"]*' $W/c01a/src/a.rs))"; else echo "OK C01a rc=$rc"; fi
# --- C01: shared counter wraps (lock at the boundary, two insertions)
mk c01b false true
printf 'next_reference_id: 4294967295\n' > $W/c01b/Breadlog.lock
printf 'fn f(){ info!("a"); info!("b"); }\n' > $W/c01b/src/a.rs
$B --config $W/c01b/Breadlog.yaml >$W/out 2>&1; rc=$?
if grep -q '\[ref: 0\]' $W/c01b/src/a.rs || grep -q "panicked" $W/out; then echo "DEFECT C01 counter wraps past 4294967295 (rc=$rc) -> $(cat $W/c01b/src/a.rs | tr -d '\n')"; else echo "OK C01b rc=$rc $(cat $W/c01b/src/a.rs)"; fi
# --- C08: rename failure (temp dir on another filesystem is emulated by a read-only source dir) reports success
mk c08 false false
printf 'fn f(){ info!("a"); }\n' > $W/c08/src/a.rs
chmod 555 $W/c08/src
if [ "$(id -u)" = 0 ]; then
  # root ignores directory permissions: inject the failure with strace instead
  strace -f -o /dev/null -e trace=rename,renameat,renameat2 -e inject=rename,renameat,renameat2:error=EXDEV $B --config $W/c08/Breadlog.yaml >$W/out 2>&1; rc=$?
else
  $B --config $W/c08/Breadlog.yaml >$W/out 2>&1; rc=$?
fi
chmod 755 $W/c08/src
if [ $rc = 0 ] && ! grep -q 'ref:' $W/c08/src/a.rs; then echo "DEFECT C08 rename failed, file not updated, exit code 0"; else echo "OK C08 rc=$rc"; fi
# --- C07: the tail of the new content is written after the rename
mk c07 false false
printf 'fn f(){ info!("a"); info!("b"); }\n// tail\n' > $W/c07/src/a.rs
strace -f -o $W/trace -e trace=write,rename,renameat,renameat2 $B --config $W/c07/Breadlog.yaml >$W/out 2>&1
rl=$(grep -n 'rename' $W/trace | head -1 | cut -d: -f1)
if [ -n "$rl" ] && tail -n +$((rl+1)) $W/trace | grep -q 'write([0-9]*, ".*tail'; then echo "DEFECT C07 file content written after rename: $(tail -n +$((rl+1)) $W/trace | grep 'tail' | head -1 | cut -c1-90)"; else echo "OK C07"; fi
# --- C18: SIGINT is not handled (registered as SIGTERM|SIGINT = 15)
mk c18 false false
for i in $(seq 1 8000); do printf 'fn f%d(){ info!("a"); }\n' $i > $W/c18/src/f$i.rs; done
# (a background job of a non-interactive shell starts with SIGINT ignored: restore the default disposition)
env --default-signal=INT $B --config $W/c18/Breadlog.yaml >$W/out 2>&1 & pid=$!
sleep 0.3; kill -INT $pid 2>/dev/null; wait $pid; rc=$?
if [ $rc = 130 ]; then echo "DEFECT C18 SIGINT kills the process (status $rc = killed by signal 2)"; else echo "OK C18 rc=$rc"; fi
# --- C18/C05: an interrupted --check passes
mk c18b false false
for i in $(seq 1 2000); do printf 'fn f%d(){ info!("a"); }\n' $i > $W/c18b/src/f$i.rs; done
$B --config $W/c18b/Breadlog.yaml --check >$W/out 2>&1 & pid=$!
sleep 0.2; kill -TERM $pid 2>/dev/null; wait $pid; rc=$?
if [ $rc = 0 ]; then echo "DEFECT C18 interrupted --check exits 0 although references are missing"; else echo "OK C18b rc=$rc"; fi
# --- C02: stop during the insert pass leaves ids on disk that the lock does not cover
mk c02 false true
for i in $(seq 1 3000); do printf 'fn f%d(){ info!("a"); }\n' $i > $W/c02/src/f$i.rs; done
printf 'next_reference_id: 1\n' > $W/c02/Breadlog.lock
$B --config $W/c02/Breadlog.yaml >$W/out 2>&1 & pid=$!
sleep 0.4; kill -TERM $pid 2>/dev/null; wait $pid; rc=$?
n=$(grep -l 'ref:' $W/c02/src/*.rs | wc -l); lock=$(grep -o '[0-9]*' $W/c02/Breadlog.lock | tail -1)
if [ "$n" -gt 0 ] && [ "$n" -lt 3000 ] && [ "$lock" -le "$n" ]; then echo "DEFECT C02 stopped run wrote $n ids but the lock still says next_reference_id=$lock (rc=$rc)"; else echo "OK C02 (n=$n lock=$lock rc=$rc)"; fi
# --- C11: macro inside a // comment on an unterminated last line
mk c11 false false
printf 'fn f(){}\n// info!("x")' > $W/c11/src/a.rs
$B --config $W/c11/Breadlog.yaml >$W/out 2>&1
if grep -q 'ref:' $W/c11/src/a.rs; then echo "DEFECT C11 comment edited: $(tail -1 $W/c11/src/a.rs)"; else echo "OK C11"; fi
# --- C17: multi-byte first identifier character
mk c17 false false
printf 'fn f(){ \xc3\xa9!("x"); }\n' > $W/c17/src/a.rs
$B --config $W/c17/Breadlog.yaml --check >$W/out 2>&1; rc=$?
if grep -q panicked $W/out; then echo "DEFECT C17 panic: $(grep -o 'panicked.*' $W/out | head -1)"; else echo "OK C17 rc=$rc"; fi
# --- C13: structured mode puts `ref` before the target argument
mk c13 true false
printf 'fn f(){ info!(target: "t", "x"); }\n' > $W/c13/src/a.rs
$B --config $W/c13/Breadlog.yaml >$W/out 2>&1
if grep -q 'info!(ref = 1; target' $W/c13/src/a.rs; then echo "DEFECT C13 $(cat $W/c13/src/a.rs)"; else echo "OK C13 $(cat $W/c13/src/a.rs)"; fi
# --- C02 (recorded finding, not repaired): kill between the first rename and the lock write
mk c02k false true
for i in 1 2 3; do printf 'fn f%d(){ info!("a"); }\n' $i > $W/c02k/src/f$i.rs; done
printf 'next_reference_id: 1\n' > $W/c02k/Breadlog.lock
strace -f -o /dev/null -e trace=rename,renameat,renameat2 -e inject=rename,renameat,renameat2:signal=KILL:when=2 $B --config $W/c02k/Breadlog.yaml >$W/out 2>&1
n=$(grep -l 'ref:' $W/c02k/src/*.rs | wc -l); lock=$(grep -o '[0-9]*' $W/c02k/Breadlog.lock | tail -1)
if [ "$n" -ge 1 ] && [ "$lock" -le "$n" ]; then echo "KNOWN-FINDING C02 killed at the second rename: $n file(s) carry ids, lock still says next_reference_id=$lock"; else echo "OK C02k (n=$n lock=$lock)"; fi
# --- C11 (recorded finding, not repaired): statement text that starts inside a string literal
mk c11s false false
printf 'fn f(){ foo("info!(", "x"); }\n' > $W/c11s/src/a.rs
$B --config $W/c11s/Breadlog.yaml >$W/out 2>&1
if grep -q 'ref:' $W/c11s/src/a.rs; then echo "KNOWN-FINDING C11 $(cat $W/c11s/src/a.rs)"; else echo "OK C11s"; fi
# --- later grammar/find() defects (DEFECT on the pinned tree, OK after the fix: commits)
mk g1 false false
printf 'fn f(){ return info!("x"); }\n' > $W/g1/src/a.rs
$B --config $W/g1/Breadlog.yaml >$W/out 2>&1
grep -q 'ref:' $W/g1/src/a.rs && echo "OK C10 return info!" || echo "DEFECT C10 \`return info!(\"x\")\` not recognised (macro_name skips whitespace)"
mk g2 false false
printf 'fn f(){}\n/* a /* b */ info!("x") */\n' > $W/g2/src/a.rs
$B --config $W/g2/Breadlog.yaml >$W/out 2>&1
grep -q 'ref:' $W/g2/src/a.rs && echo "DEFECT C11 nested block comment edited: $(tail -1 $W/g2/src/a.rs)" || echo "OK C11 nested comment"
mk g3 false false
printf 'fn f(){ info!("// x");\n foo("bar"); }\n' > $W/g3/src/a.rs
$B --config $W/g3/Breadlog.yaml >$W/out 2>&1
grep -q 'info!("\[ref: 1\] // x")' $W/g3/src/a.rs && echo "OK C10/C03 message starting with //" || echo "DEFECT C10/C03 message starting with //: $(tr '\n' ' ' < $W/g3/src/a.rs)"
mk g4 true false
printf 'fn f(){ info!(ref = 5 ; "x"); }\n' > $W/g4/src/a.rs
$B --config $W/g4/Breadlog.yaml --check >$W/out 2>&1; rc=$?
grep -q 'Unusable' $W/out && echo "DEFECT C13 \`ref = 5 ;\` reported as unusable" || echo "OK C13 ref followed by whitespace (rc=$rc)"
mk g5 false false
printf 'fn f(){ x::info!("a"); }\n' > $W/g5/src/a.rs
$B --config $W/g5/Breadlog.yaml >$W/out 2>&1
grep -q 'ref:' $W/g5/src/a.rs && echo "DEFECT C11 x::info! treated as info!: $(cat $W/g5/src/a.rs)" || echo "OK C11 one-letter module"
mk g6 true false
printf 'fn f(){ let r = retry!(op = info!("trying")); }\n' > $W/g6/src/a.rs
$B --config $W/g6/Breadlog.yaml >$W/out 2>&1
printf 'fn g(){ info!("second"); }\n' > $W/g6/src/b.rs
$B --config $W/g6/Breadlog.yaml >$W/out 2>&1
if grep -q 'ref = 1;' $W/g6/src/a.rs && grep -q 'ref = 1;' $W/g6/src/b.rs; then echo "DEFECT C06 statement nested in another macro's key = value is not recognised after its edit; its id is handed out again: $(cat $W/g6/src/a.rs $W/g6/src/b.rs | tr '\n' ' ')"; else echo "OK C06 nested statement ($(cat $W/g6/src/a.rs $W/g6/src/b.rs | tr '\n' ' '))"; fi
# --- C05 (recorded finding, not repaired): a failed rename is counted as an insertion
mk c05r false false
printf 'fn f(){ info!("a"); }\n' > $W/c05r/src/a.rs
strace -f -o /dev/null -e trace=rename,renameat,renameat2 -e inject=rename,renameat,renameat2:error=EIO $B --config $W/c05r/Breadlog.yaml >$W/out 2>&1; rc=$?
n=$(grep -o 'Num. inserted reference(s): [0-9]*' $W/out | grep -o '[0-9]*$'); t=$(grep -c 'ref:' $W/c05r/src/a.rs)
if [ "$n" != "$t" ]; then echo "KNOWN-FINDING C05 failed rename: the run prints $n inserted reference(s), the tree holds $t (rc=$rc)"; else echo "OK C05r (printed=$n in tree=$t rc=$rc)"; fi

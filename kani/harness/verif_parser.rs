// Engine K harnesses for parser/code_parser.rs: the REAL directive scan and reference extraction,
// executed against the regex shim whose matcher tables are generated from the literals in /repo.
#![allow(static_mut_refs)]
#![allow(dead_code)]
#![allow(unused_imports)]

use super::*;
include!("verif_bounds.rs");

/// memory is never freed (see verif_generate.rs::stub_dealloc)
unsafe fn stub_dealloc(_ptr: *mut u8, _layout: std::alloc::Layout) {}


const IGNORE: &[u8] = b"breadlog:ignore";

fn comment_regex() -> Regex
{
    Regex::new(regex::COMMENT_REGEX).unwrap()
}

struct Buf
{
    b: [u8; 48],
    n: usize,
}
impl Buf
{
    fn new() -> Buf
    {
        Buf { b: [0; 48], n: 0 }
    }
    fn push(&mut self, c: u8)
    {
        self.b[self.n] = c;
        self.n += 1;
    }
    fn lit(&mut self, s: &[u8])
    {
        let mut i = 0;
        while i < s.len()
        {
            self.push(s[i]);
            i += 1;
        }
    }
    fn as_str(&self) -> &str
    {
        unsafe { std::str::from_utf8_unchecked(&self.b[..self.n]) }
    }
}

fn blank() -> u8
{
    if kani::any() { b' ' } else { b'\t' }
}

/// the directive text with every letter in either case
fn cased_directive(buf: &mut Buf)
{
    let mut i = 0;
    while i < IGNORE.len()
    {
        let c = IGNORE[i];
        if c.is_ascii_alphabetic() && kani::any()
        {
            buf.push(c.to_ascii_uppercase());
        }
        else
        {
            buf.push(c);
        }
        i += 1;
    }
}

fn applies_body(block: bool, blank_line: bool, multibyte_subject: bool)
{
    let re = comment_regex();
    let mut buf = Buf::new();
    buf.lit(if block { b"/*" } else { b"//" });
    buf.push(blank());
    cased_directive(&mut buf);
    buf.push(blank());
    if block
    {
        buf.lit(b"*/");
    }
    buf.push(b'\n');
    if blank_line
    {
        buf.push(blank());
        buf.push(b'\n');
    }
    buf.push(blank());
    let subject = buf.n;
    if multibyte_subject
    {
        buf.lit(&[0xC3, 0xA9]); // a two-byte first character of the macro name
    }
    else
    {
        buf.push(b'm');
    }
    buf.lit(b"!(");
    let r = check_for_ignore_directive(buf.as_str(), subject, &re);
    assert!(r, "C14: a directive comment on the nearest non-blank previous line applies, in any letter case");
    let r2 = check_for_no_kvp_directive(buf.as_str(), subject, &re);
    assert!(!r2, "C14: an ignore directive is not a no-kvp directive");
}

/// `//<blank>breadlog:ignore<blank>\n<blank>S`: the directive applies to S, in every letter case
#[kani::proof]
#[kani::stub(std::alloc::dealloc, stub_dealloc)]
#[kani::unwind(40)]
fn u_directive_line()
{
    applies_body(false, false, false);
}

/// `/*<blank>breadlog:ignore<blank>*/`, a blank line in between, and a two-byte first character of S
#[kani::proof]
#[kani::stub(std::alloc::dealloc, stub_dealloc)]
#[kani::unwind(40)]
fn u_directive_block()
{
    applies_body(true, true, true);
}

fn no_effect_body(variant: u8)
{
    let re = comment_regex();
    let mut buf = Buf::new();
    let extra: u8 = kani::any();
    kani::assume(extra > b' ' && extra < 0x7f && extra != b'/' && extra != b'*');
    if variant == 3
    {
        buf.lit(b"m!(x) // ");
        buf.lit(IGNORE);
        buf.lit(b"\n// ");
        buf.lit(IGNORE);
        let r = check_for_ignore_directive(buf.as_str(), 0, &re);
        assert!(!r, "C14: a directive placed after the statement has no effect");
        return;
    }
    buf.lit(b"// ");
    if variant == 0
    {
        buf.push(extra);
        buf.push(b' ');
    }
    buf.lit(IGNORE);
    if variant == 1
    {
        buf.push(b' ');
        buf.push(extra);
    }
    buf.push(b'\n');
    if variant == 2
    {
        buf.push(extra);
        buf.lit(b"();\n");
    }
    let subject = buf.n;
    buf.lit(b"m!(");
    let r = check_for_ignore_directive(buf.as_str(), subject, &re);
    assert!(!r, "C14: a directive with other text in the comment, or separated by a code line, has no effect");
}

/// one more word in the comment (before / after), a code line in between, directive after the statement
#[kani::proof]
#[kani::stub(std::alloc::dealloc, stub_dealloc)]
#[kani::unwind(40)]
fn u_directive_other_text()
{
    no_effect_body(0);
    no_effect_body(1);
}

#[kani::proof]
#[kani::stub(std::alloc::dealloc, stub_dealloc)]
#[kani::unwind(40)]
fn u_directive_separated()
{
    no_effect_body(2);
    no_effect_body(3);
}

/// arbitrary small text: the scan never panics (C17) and never reports a directive that is not there
#[kani::proof]
#[kani::stub(std::alloc::dealloc, stub_dealloc)]
#[kani::unwind(40)]
fn u_directive_freeform()
{
    let re = comment_regex();
    let mut buf = Buf::new();
    let n: usize = kani::any();
    kani::assume(n <= NBYTES + 2);
    let mut i = 0;
    while i < NBYTES + 2
    {
        if i < n
        {
            let k: u8 = kani::any();
            kani::assume(k < 8);
            match k
            {
                0 => buf.push(b'/'),
                1 => buf.push(b'*'),
                2 => buf.push(b' '),
                3 => buf.push(b'\n'),
                4 => buf.push(b'\r'),
                5 => buf.push(b'b'),
                6 => buf.lit(&[0xC3, 0xA9]),
                _ => buf.lit(&[0xE2, 0x80, 0xA8]), // U+2028
            }
        }
        i += 1;
    }
    let s = buf.as_str();
    let pos: usize = kani::any();
    kani::assume(pos < buf.n && s.is_char_boundary(pos));
    let r = check_for_ignore_directive(s, pos, &re);
    kani::cover!(buf.n > NBYTES, "long input");
    assert!(!r, "C14: no directive is reported where the directive text does not occur");
}

/// LogRefEntry::extract_reference (real regex literal through the shim, real str::parse::<u32>)
/// against the rule of C12 on `[ref: ` followed by exactly NDIGITS arbitrary digits and a closer
#[kani::proof]
#[kani::stub(std::alloc::dealloc, stub_dealloc)]
#[kani::unwind(40)]
fn u_extract()
{
    let mut buf = Buf::new();
    buf.lit(b"[ref: ");
    let mut value: u64 = 0;
    let mut i = 0;
    while i < NDIGITS
    {
        let d: u8 = kani::any();
        kani::assume(d < 10);
        buf.push(b'0' + d);
        value = value * 10 + d as u64;
        i += 1;
    }
    let closer: u8 = kani::any();
    kani::assume(closer == b']' || closer == b' ' || closer == b'x');
    buf.push(closer);
    buf.lit(b" m");
    let r = LogRefEntry::extract_reference(buf.as_str());
    let expect = NDIGITS >= 1 && NDIGITS <= 10 && closer == b']' && value <= 4294967295;
    kani::cover!(NDIGITS > 10 || expect, "valid reference");
    kani::cover!(!expect, "not a reference");
    if expect
    {
        assert!(r == Some(value as u32), "C12: a valid token at the start of the message is read with its value");
    }
    else
    {
        assert!(r.is_none(), "C12: anything else is not a reference");
    }
}

/// near misses of the token head are not references
#[kani::proof]
#[kani::stub(std::alloc::dealloc, stub_dealloc)]
#[kani::unwind(40)]
fn u_extract_heads()
{
    let k: u8 = kani::any();
    kani::assume(k < 5);
    let text: &str = match k
    {
        0 => " [ref: 12] m",
        1 => "[ref:12] m",
        2 => "[Ref: 12] m",
        3 => "ref: 12 m",
        _ => "m [ref: 12]",
    };
    assert!(LogRefEntry::extract_reference(text).is_none(), "C12: other spellings and positions do not count");
    assert!(LogRefEntry::extract_reference("[ref: 12] m") == Some(12), "C12: the canonical token counts");
}

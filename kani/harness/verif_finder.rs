// Engine K harness for codegen/finder.rs (property C15; also the extension clause of C16).  Dropped
// next to the copy of /repo/src/codegen/finder.rs as a child module.  The directory walk is the
// `walkdir` model of kani/shims/walkdir (arbitrary entries: names, kinds, depths, unreadable
// entries); `std::fs::metadata` is a stub (FFI).  Everything between the walk and `code_files` -
// the kind filter, `Path::extension` (std, compiled from source), the comparison with the configured
// extensions, the path conversion - is the real code.
#![allow(static_mut_refs)]
#![allow(dead_code)]
#![allow(unused_imports)]

use super::*;
use crate::config::context::{Config, Context, RustConfig};
use std::sync::atomic::AtomicBool;
use std::sync::Arc;
use walkdir as wd;

// NFILES (entries below the root), NNAME (bytes per file name), NEXT (configured extensions), EXTLEN (bytes per extension, <= 2), DEEP (0/1/2)
include!("verif_bounds.rs");
include!("verif_replay.rs");
static mut RP_IDX: usize = 0;

fn rp_next() -> [u8; 8]
{
    unsafe {
        let i = RP_IDX;
        RP_IDX += 1;
        let mut out = [0u8; 8];
        if i < REPLAY_N
        {
            out[0] = REPLAY_FLAT[i * 8];
            out[1] = REPLAY_FLAT[i * 8 + 1];
            out[2] = REPLAY_FLAT[i * 8 + 2];
            out[3] = REPLAY_FLAT[i * 8 + 3];
            out[4] = REPLAY_FLAT[i * 8 + 4];
            out[5] = REPLAY_FLAT[i * 8 + 5];
            out[6] = REPLAY_FLAT[i * 8 + 6];
            out[7] = REPLAY_FLAT[i * 8 + 7];
        }
        out
    }
}
fn sym_u8() -> u8
{
    if REPLAY_ON { rp_next()[0] } else { kani::any() }
}
fn sym_bool() -> bool
{
    if REPLAY_ON { rp_next()[0] != 0 } else { kani::any() }
}

fn stub_dealloc(_ptr: *mut u8, _layout: std::alloc::Layout) {}

static mut ROOT_OK: bool = true;
static mut ROOT_IS_DIR: bool = true;
static mut STATS: usize = 0;

fn stub_metadata<P: AsRef<std::path::Path>>(_p: P) -> std::io::Result<std::fs::Metadata>
{
    unsafe {
        STATS += 1;
        if ROOT_OK
        {
            Ok(std::mem::zeroed())
        }
        else
        {
            Err(std::io::Error::from(std::io::ErrorKind::NotFound))
        }
    }
}
fn stub_is_dir(_m: &std::fs::Metadata) -> bool
{
    unsafe { ROOT_IS_DIR }
}

/// every name in the model is ASCII, so every conversion to &str succeeds; the standard validator
/// (word-at-a-time, alignment dependent) is not what finder.rs is about
fn stub_from_utf8(v: &[u8]) -> Result<&str, std::str::Utf8Error>
{
    Ok(unsafe { std::str::from_utf8_unchecked(v) })
}

/// std's word-at-a-time byte searches (alignment arithmetic, unbounded for CBMC) as plain loops
fn stub_memchr(x: u8, text: &[u8]) -> Option<usize>
{
    let mut i = 0;
    while i < text.len()
    {
        if text[i] == x
        {
            return Some(i);
        }
        i += 1;
    }
    None
}
fn stub_memrchr(x: u8, text: &[u8]) -> Option<usize>
{
    let mut i = text.len();
    while i > 0
    {
        i -= 1;
        if text[i] == x
        {
            return Some(i);
        }
    }
    None
}

/// what the file system says about a path (std::path::Path::{is_file, is_dir, is_symlink, exists} are FFI): these
/// follow links, as the real ones do
unsafe fn model_kind_of(p: &std::path::Path) -> Option<u8>
{
    let b = p.as_os_str().as_encoded_bytes();
    if b.len() == 2 && b[0] == ROOT[0] && b[1] == ROOT[1]
    {
        return Some(wd::KIND_DIR);
    }
    if b.len() < 4 || b[0] != ROOT[0] || b[1] != ROOT[1] || b[2] != b'/'
    {
        return None;
    }
    let mut f = 0;
    while f < NFILES
    {
        let e = wd::MODEL.entries[f];
        // the entry itself
        if b.len() == 3 + e.len
        {
            let mut same = true;
            let mut i = 0;
            while i < e.len
            {
                if b[3 + i] != e.rel[i] { same = false; }
                i += 1;
            }
            if same { return Some(e.kind); }
        }
        // its directory
        if e.depth == 2 && b.len() == 5 && b[3] == e.rel[0] && b[4] == e.rel[1]
        {
            return Some(wd::KIND_DIR);
        }
        f += 1;
    }
    None
}
fn stub_path_is_file(p: &std::path::Path) -> bool
{
    unsafe { matches!(model_kind_of(p), Some(k) if k == wd::KIND_FILE || k == wd::KIND_LINK_TO_FILE) }
}
fn stub_path_is_dir(p: &std::path::Path) -> bool
{
    unsafe { matches!(model_kind_of(p), Some(k) if k == wd::KIND_DIR || k == wd::KIND_LINK_TO_DIR) }
}
fn stub_path_is_symlink(p: &std::path::Path) -> bool
{
    unsafe { matches!(model_kind_of(p), Some(k) if k == wd::KIND_LINK_TO_FILE || k == wd::KIND_LINK_TO_DIR) }
}
fn stub_path_exists(p: &std::path::Path) -> bool
{
    unsafe { matches!(model_kind_of(p), Some(k) if k != wd::KIND_ERR) }
}

const ROOT: &[u8] = b"/s";

/// the characters a name or an extension is made of: letters in both cases, the dot, a character
/// that is neither
fn sym_char() -> u8
{
    let c = sym_u8();
    kani::assume(c == b'r' || c == b's' || c == b'R' || c == b'S' || c == b'.' || c == b'a' || c == b'~');
    c
}

/// independent statement of "the extension of a file name": the part after the last dot, provided
/// the dot is not the first character (a leading dot makes a hidden file, not an extension)
fn spec_ext(rel: &[u8; wd::MAX_REL], from: usize, to: usize) -> Option<usize>
{
    if to - from == 2 && rel[from] == b'.' && rel[from + 1] == b'.'
    {
        return None;
    }
    let mut dot: Option<usize> = None;
    let mut i = from;
    while i < to
    {
        if rel[i] == b'.'
        {
            dot = Some(i);
        }
        i += 1;
    }
    match dot
    {
        None => None,
        Some(d) if d == from => None,
        Some(d) => Some(d + 1),
    }
}

fn bytes_eq(a: &[u8], b: &[u8]) -> bool
{
    if a.len() != b.len()
    {
        return false;
    }
    let mut i = 0;
    while i < a.len()
    {
        if a[i] != b[i]
        {
            return false;
        }
        i += 1;
    }
    true
}

#[kani::proof]
#[kani::unwind(16)]
#[kani::stub(std::alloc::dealloc, stub_dealloc)]
#[kani::stub(std::fs::metadata, stub_metadata)]
#[kani::stub(core::str::from_utf8, stub_from_utf8)]
#[kani::stub(std::path::Path::is_file, stub_path_is_file)]
#[kani::stub(std::path::Path::is_dir, stub_path_is_dir)]
#[kani::stub(std::path::Path::is_symlink, stub_path_is_symlink)]
#[kani::stub(std::path::Path::exists, stub_path_exists)]
#[kani::stub(core::slice::memchr::memchr, stub_memchr)]
#[kani::stub(core::slice::memchr::memrchr, stub_memrchr)]
#[kani::stub(std::fs::Metadata::is_dir, stub_is_dir)]
fn u_find()
{
    log::set_max_level(log::LevelFilter::Off);
    // configured extensions
    let mut exts: Vec<String> = Vec::new();
    let mut ext_bytes = [[0u8; 2]; NEXT];
    let mut ext_len = [0usize; NEXT];
    let mut k = 0;
    while k < NEXT
    {
        // lengths are fixed per run (EXTLEN, NNAME): symbolic lengths multiply the paths through
        // std's path parser
        let l = EXTLEN;
        ext_len[k] = l;
        let mut v: Vec<u8> = Vec::new();
        let mut i = 0;
        while i < l
        {
            let c = sym_char();
            ext_bytes[k][i] = c;
            v.push(c);
            i += 1;
        }
        exts.push(unsafe { String::from_utf8_unchecked(v) });
        k += 1;
    }
    // the tree
    let mut name_off = [0usize; NFILES];
    unsafe {
        wd::EXPECT_ROOT = ROOT;
        wd::MODEL.n = NFILES;
        let mut f = 0;
        while f < NFILES
        {
            let kind = sym_u8();
            kani::assume(kind <= wd::KIND_OTHER);
            // fixed per run: DEEP = 0 directly below the root, 1 inside the directory `ab`, 2 inside the hidden directory `.g`
            // (a symbolic directory name on top of a symbolic file name is beyond what CBMC finishes in half an hour)
            let deep = DEEP >= 1;
            let mut rel = [0u8; wd::MAX_REL];
            let mut len = 0;
            if deep
            {
                rel[0] = if DEEP == 2 { b'.' } else { b'a' };
                rel[1] = if DEEP == 2 { b'g' } else { b'b' };
                rel[2] = b'/';
                len = 3;
            }
            name_off[f] = len;
            let nl = NNAME;
            let mut i = 0;
            while i < nl
            {
                rel[len] = sym_char();
                len += 1;
                i += 1;
            }
            // walkdir never yields the entries "." and ".."
            let n0 = name_off[f];
            kani::assume(!(len - n0 == 1 && rel[n0] == b'.'));
            kani::assume(!(len - n0 == 2 && rel[n0] == b'.' && rel[n0 + 1] == b'.'));
            wd::MODEL.entries[f] = wd::ModelEntry { kind, depth: if deep { 2 } else { 1 }, rel, len };
            f += 1;
        }
        ROOT_OK = sym_bool();
        ROOT_IS_DIR = sym_bool();
    }
    let stop = sym_bool();
    let ctx = Context {
        config: Config {
            config_dir: String::new(),
            source_dir: String::from("/s"),
            use_cache: false,
            rust: RustConfig { structured: false, log_macros: Vec::new(), extensions: exts },
        },
        cached_next_reference_id: None,
        check_mode: sym_bool(),
        stop_commanded: Arc::new(AtomicBool::new(stop)),
    };
    let mut finder = CodeFinder { code_files: Vec::new(), context: &ctx };
    let ok = finder.find();

    unsafe {
        if ok
        {
            assert!(wd::MODEL.walks == 1 && wd::MODEL.root_matches, "C15: the walk starts at the configured source directory");
        }
        // which model entries are in scope
        let mut j = 0;
        let mut f = 0;
        while f < NFILES
        {
            let e = wd::MODEL.entries[f];
            // (index arithmetic on the arrays themselves: no sub-slices in the oracle)
            let n0 = name_off[f];
            let mut in_scope = false;
            if e.kind == wd::KIND_FILE
            {
                if let Some(from) = spec_ext(&e.rel, n0, e.len)
                {
                    let mut k = 0;
                    while k < NEXT
                    {
                        if e.len - from == ext_len[k]
                        {
                            let mut same = true;
                            let mut i = 0;
                            while i < ext_len[k]
                            {
                                if e.rel[from + i] != ext_bytes[k][i]
                                {
                                    same = false;
                                }
                                i += 1;
                            }
                            if same
                            {
                                in_scope = true;
                            }
                        }
                        k += 1;
                    }
                }
            }
            // is code_files[j] this entry?
            let mut is_next = false;
            if j < finder.code_files.len()
            {
                let p = finder.code_files[j].path.as_bytes();
                if p.len() == ROOT.len() + 1 + e.len
                {
                    let mut same = p[0] == ROOT[0] && p[1] == ROOT[1] && p[2] == b'/';
                    let mut i = 0;
                    while i < e.len
                    {
                        if p[3 + i] != e.rel[i]
                        {
                            same = false;
                        }
                        i += 1;
                    }
                    is_next = same;
                }
            }
            if in_scope && ok
            {
                assert!(is_next, "C15: a regular file below the source directory with a configured extension is listed");
            }
            if is_next && in_scope
            {
                j += 1;
            }
            f += 1;
        }
        assert!(finder.code_files.len() == j, "C15: only regular files with exactly a configured extension are listed (no directory, link, other extension or case variant)");
        if stop
        {
            assert!(!ok || j == 0, "C18: a stop request ends the discovery");
        }
        // (a name of NNAME characters has room for a non-empty stem, the dot and the extension only if NNAME >= EXTLEN + 2)
        kani::cover!(NNAME < EXTLEN + 2 || (ok && j == NFILES), "every entry in scope");
        kani::cover!(ok && j == 0 && NFILES > 0, "no entry in scope");
        kani::cover!(!ok, "discovery fails");
    }
    std::mem::forget(finder);
    std::mem::forget(ctx);
}

// Engine K harnesses for codegen/generate.rs. This file is dropped next to the (desugared) copy of
// /repo/src/codegen/generate.rs as a child module, so the private processors are reachable.
// Bounds are compile-time constants chosen by the runner through `--cfg blv_*` flags.
#![allow(static_mut_refs)]
#![allow(dead_code)]
#![allow(unused_imports)]

use super::*;
use crate::codegen::finder::{CodeFile, CodeFinder};
use crate::config::context::{Cache, Config, Context, RustConfig};
use crate::parser::code_parser::CodeLanguage;
use crate::parser::{CodePosition, LogRefEntry, LogRefKind};
use async_std::model as fsm;
use std::sync::atomic::{AtomicBool, AtomicU32, Ordering};
use std::sync::Arc;

// ---------------------------------------------------------------------------------------------
// bounds
// ---------------------------------------------------------------------------------------------
#[cfg(blv_small)]
pub const NBYTES: usize = 2;
#[cfg(blv_small)]
pub const NENT: usize = 1;
#[cfg(not(any(blv_deep, blv_small)))]
pub const NBYTES: usize = 4;
#[cfg(not(any(blv_deep, blv_small)))]
pub const NENT: usize = 2;
#[cfg(blv_deep)]
pub const NBYTES: usize = 6;
#[cfg(blv_deep)]
pub const NENT: usize = 3;

pub const MARKER: u8 = 0x7f;

// ---------------------------------------------------------------------------------------------
// ghost state written by stubs
// ---------------------------------------------------------------------------------------------
pub const MAXIDS: usize = 8;
static mut IDS: [u32; MAXIDS] = [0; MAXIDS];
static mut NIDS: usize = 0;

/// Stub for `LogRefEntry::insertable_reference_string`: records the ID handed out and returns a
/// one-byte marker, so that the ID stays symbolic over the whole u32 range (decimal formatting
/// of a symbolic number is out of CBMC's reach; the token text is Engine S's subject).
fn stub_token(_e: &LogRefEntry, reference_id: u32) -> String
{
    unsafe {
        if NIDS < MAXIDS
        {
            IDS[NIDS] = reference_id;
        }
        NIDS += 1;
        String::from_utf8_unchecked(vec![MARKER])
    }
}

/// Stub for `AsyncTempFile::new`: the temp file is the model path "h"; creation can fail.
fn stub_tempfile_new() -> Result<AsyncTempFile, String>
{
    match async_std::fs::File::create("h")
    {
        Ok(f) => Ok(AsyncTempFile {
            path: String::from("h"),
            file: f,
        }),
        Err(_) => Err(String::new()),
    }
}

/// Stub for `std::fs::remove_file` (used by `AsyncTempFile::drop`): unlink in the model. The
/// unlink of the temp file itself is assumed not to fail (nothing could be done about that).
fn stub_remove_file<P: AsRef<std::path::Path>>(path: P) -> std::io::Result<()>
{
    unsafe {
        let id = fsm::path_id(path.as_ref().as_os_str().as_encoded_bytes());
        fsm::OPS += 1;
        if id == fsm::NONE
        {
            return Err(std::io::Error::from(std::io::ErrorKind::NotFound));
        }
        if id < fsm::NSRC
        {
            fsm::MUTATIONS += 1;
            fsm::clobber(id);
            return Ok(());
        }
        if !fsm::T_LINKED
        {
            return Err(std::io::Error::from(std::io::ErrorKind::NotFound));
        }
        fsm::MUTATIONS += 1;
        fsm::T_LINKED = false;
        if fsm::T_AT == fsm::NONE
        {
            fsm::T_OPEN = false;
        }
        Ok(())
    }
}

// ---------------------------------------------------------------------------------------------
// symbolic inputs
// ---------------------------------------------------------------------------------------------
fn any_kind() -> LogRefKind
{
    let k: u8 = kani::any();
    kani::assume(k < 4);
    match k
    {
        0 => LogRefKind::Unknown,
        1 => LogRefKind::String,
        2 => LogRefKind::StructuredPreExisting,
        _ => LogRefKind::StructuredNew,
    }
}

/// Plain-data view of the symbolic entries (the oracle works on this, the code under test on the
/// `LogRefEntry` values built from it).
#[derive(Clone, Copy)]
struct E
{
    pos: usize,
    has_ref: bool,
    reference: u32,
    preexisting_kind: bool,
}

impl E
{
    /// Written from the property text: a statement "lacking a reference", where a structured `ref`
    /// key with a non-literal value is "unusable rather than missing".
    fn needs_id(&self) -> bool
    {
        !self.has_ref && !self.preexisting_kind
    }
}

/// NENT entries with strictly increasing offsets within `len` (what the parser guarantees; Engine S
/// discharges this on the grammar). Fewer entries are covered because an entry that already has a
/// reference is invisible to every processor except for its ID value.
fn any_entries(len: usize) -> ([E; NENT], Vec<LogRefEntry>)
{
    let mut es = [E { pos: 0, has_ref: false, reference: 0, preexisting_kind: false }; NENT];
    let mut v: Vec<LogRefEntry> = Vec::with_capacity(NENT);
    let mut i = 0;
    while i < NENT
    {
        let pos: usize = kani::any();
        kani::assume(pos <= len);
        if i > 0
        {
            kani::assume(pos > es[i - 1].pos);
        }
        let has_ref: bool = kani::any();
        let reference: u32 = kani::any();
        let kind = any_kind();
        es[i] = E { pos, has_ref, reference, preexisting_kind: kind == LogRefKind::StructuredPreExisting };
        v.push(LogRefEntry::new(
            CodePosition::new(pos, kani::any(), kani::any()),
            if has_ref { Some(reference) } else { None },
            String::new(),
            kind,
            None,
            None,
        ));
        i += 1;
    }
    (es, v)
}

struct Content
{
    bytes: [u8; NBYTES],
    len: usize,
}

impl Content
{
    /// No heap allocation: the `&str` handed to the code under test points into this struct.
    fn as_str(&self) -> &str
    {
        unsafe { std::str::from_utf8_unchecked(&self.bytes[..self.len]) }
    }
}

fn any_ascii_content() -> Content
{
    let bytes: [u8; NBYTES] = kani::any();
    let len: usize = kani::any();
    kani::assume(len <= NBYTES);
    let mut i = 0;
    while i < NBYTES
    {
        kani::assume(bytes[i] >= 0x20 && bytes[i] < MARKER);
        i += 1;
    }
    Content { bytes, len }
}

fn count_needing(es: &[E; NENT]) -> usize
{
    let mut n = 0;
    let mut i = 0;
    while i < NENT
    {
        if es[i].needs_id()
        {
            n += 1;
        }
        i += 1;
    }
    n
}

fn byte_at(bytes: &[u8; NBYTES], i: usize) -> u8
{
    // concrete-index reads only
    let mut k = 0;
    let mut r = 0u8;
    while k < NBYTES
    {
        if k == i
        {
            r = bytes[k];
        }
        k += 1;
    }
    r
}

/// Byte j of the file the property demands after a complete edit: the original bytes with one
/// marker in front of every entry that lacks a reference. Marker k (k-th entry needing an id, at
/// original offset p_k) sits at output position p_k + k.
fn expected_at(bytes: &[u8; NBYTES], es: &[E; NENT], j: usize) -> u8
{
    let mut markers_before = 0usize; // markers strictly before output position j
    let mut is_marker = false;
    let mut k = 0usize; // index among entries needing an id
    let mut i = 0;
    while i < NENT
    {
        if es[i].needs_id()
        {
            let at = es[i].pos + k;
            if at == j
            {
                is_marker = true;
            }
            if at < j
            {
                markers_before += 1;
            }
            k += 1;
        }
        i += 1;
    }
    if is_marker
    {
        MARKER
    }
    else
    {
        byte_at(bytes, j - markers_before)
    }
}

unsafe fn register_expected(bytes: &[u8; NBYTES], len: usize, es: &[E; NENT], target: usize)
{
    fsm::TARGET = target;
    fsm::EXPECT_LEN = len + count_needing(es);
    let mut j = 0;
    while j < NBYTES + NENT
    {
        fsm::EXPECT[j] = expected_at(bytes, es, j);
        j += 1;
    }
}

unsafe fn any_faults()
{
    fsm::FAIL_MASK = kani::any();
    fsm::DRAIN = kani::any();
}

// ---------------------------------------------------------------------------------------------
// U-nextid : NextReferenceIdProcessor::map + reduce over 2 files
// ---------------------------------------------------------------------------------------------
fn max_existing(es: &[E; NENT]) -> u32
{
    let mut m = 0;
    let mut i = 0;
    while i < NENT
    {
        if es[i].has_ref && es[i].reference > m
        {
            m = es[i].reference;
        }
        i += 1;
    }
    m
}

#[kani::proof]
#[kani::unwind(5)]
fn u_nextid()
{
    let (s1, e1) = any_entries(8);
    let (s2, e2) = any_entries(8);
    let m1 = max_existing(&s1);
    let m2 = max_existing(&s2);
    let m = if m1 > m2 { m1 } else { m2 };
    let missing = count_needing(&s1) + count_needing(&s2);
    kani::cover!(m == u32::MAX, "existing id at the u32 boundary");
    let r1 = NextReferenceIdProcessor::map("a", "", &None, &e1);
    let r2 = NextReferenceIdProcessor::map("b", "", &None, &e2);
    assert!(r1.is_some() && r2.is_some());
    let res = NextReferenceIdProcessor::reduce(&[r1.unwrap(), r2.unwrap()]);
    kani::cover!(m == 0 && missing == 2 * NENT, "no ids yet, everything missing");
    match res
    {
        Some((next, miss)) =>
        {
            assert!(next >= 1, "C01: next id is at least 1");
            assert!((next as u64) > (m as u64), "C01: next id is above every existing id");
            assert!(miss == missing, "C05: first pass counts exactly the statements lacking a reference");
        },
        None =>
        {
            assert!(m == u32::MAX, "C01: the first pass may only give up when the id range is exhausted");
        },
    }
    std::mem::forget(e1);
    std::mem::forget(e2);
}

// ---------------------------------------------------------------------------------------------
// U-count : CountMissingReferenceIdProcessor::map + reduce
// ---------------------------------------------------------------------------------------------
#[kani::proof]
#[kani::unwind(5)]
fn u_count()
{
    let (s1, e1) = any_entries(8);
    let (s2, e2) = any_entries(8);
    unsafe {
        fsm::reset();
    }
    let r1 = CountMissingReferenceIdProcessor::map("a", "", &None, &e1);
    let r2 = CountMissingReferenceIdProcessor::map("b", "", &None, &e2);
    assert!(r1.is_some() && r2.is_some());
    let n1 = count_needing(&s1);
    let n2 = count_needing(&s2);
    assert!(r1.unwrap() as usize == n1, "C05: per-file missing count");
    let total = CountMissingReferenceIdProcessor::reduce(&[r1.unwrap(), r2.unwrap()]);
    assert!(total.is_some());
    assert!(total.unwrap() as usize == n1 + n2, "C05: total missing count");
    kani::cover!(n1 + n2 == 2 * NENT, "all missing");
    kani::cover!(n1 + n2 == 0, "none missing");
    unsafe {
        assert!(fsm::OPS == 0, "C04: counting touches no file");
    }
    std::mem::forget(e1);
    std::mem::forget(e2);
}

// ---------------------------------------------------------------------------------------------
// U-insert : InsertReferencesProcessor::map against the FS model
// ---------------------------------------------------------------------------------------------
#[kani::proof]
#[kani::unwind(10)]
#[kani::stub(crate::parser::code_parser::LogRefEntry::insertable_reference_string, stub_token)]
#[kani::stub(AsyncTempFile::new, stub_tempfile_new)]
#[kani::stub(std::fs::remove_file, stub_remove_file)]
fn u_insert()
{
    insert_body(true, true);
}

/// Symbolic content, entries, counter and write-cache drain points; no injected failures.
#[kani::proof]
#[kani::unwind(10)]
#[kani::stub(crate::parser::code_parser::LogRefEntry::insertable_reference_string, stub_token)]
#[kani::stub(AsyncTempFile::new, stub_tempfile_new)]
#[kani::stub(std::fs::remove_file, stub_remove_file)]
fn u_insert_content()
{
    insert_body(false, true);
}

/// Every subset of failing operations and drain points; symbolic entries and counter; the file
/// content is the fixed string of distinct bytes "abcd.." (content bytes are never inspected by
/// the code under test; u_insert_content covers arbitrary bytes).
#[kani::proof]
#[kani::unwind(10)]
#[kani::stub(crate::parser::code_parser::LogRefEntry::insertable_reference_string, stub_token)]
#[kani::stub(AsyncTempFile::new, stub_tempfile_new)]
#[kani::stub(std::fs::remove_file, stub_remove_file)]
fn u_insert_faults()
{
    insert_body(true, false);
}

fn insert_body(faults: bool, symbolic_content: bool)
{
    let c = if symbolic_content
    {
        any_ascii_content()
    }
    else
    {
        let mut bytes = [0u8; NBYTES];
        let mut i = 0;
        while i < NBYTES
        {
            bytes[i] = b'a' + i as u8;
            i += 1;
        }
        Content { bytes, len: NBYTES }
    };
    let (content, bytes, len) = (c.as_str(), c.bytes, c.len);
    let (es, entries) = any_entries(len);
    let start: u32 = kani::any();
    kani::assume(start >= 1);
    let counter = Arc::new(AtomicU32::new(start));
    let params = Some(counter.clone());
    let need = count_needing(&es);
    unsafe {
        fsm::reset();
        fsm::SRC_PRESENT[0] = true;
        register_expected(&bytes, len, &es, 0);
        if faults
        {
            fsm::FAIL_MASK = kani::any();
        }
        fsm::DRAIN = kani::any();
        NIDS = 0;
    }

    let r = InsertReferencesProcessor::map("a", content, &params, &entries);

    unsafe {
        assert!(!fsm::MODEL_OVERFLOW && !fsm::FOREIGN_PATH, "model bound respected");
        assert!(r.is_some());
        let r = r.unwrap();
        let after = counter.load(Ordering::Relaxed);
        let injected = fsm::FAILED_OPS > 0;
        kani::cover!(need == NENT && !r.failure, "all entries inserted successfully");
        kani::cover!(!faults || (injected && r.failure), "an injected fault is reported");
        kani::cover!(need > 0 && start == u32::MAX, "counter at the u32 boundary");
        kani::cover!(!faults || fsm::SILENT_FAILURES > 0, "a flush failing inside Drop is possible");

        // C07: at every operation boundary the source was the original or the complete new file
        assert!(!fsm::ATOMICITY_BROKEN, "C07: source file is original or complete at every operation boundary");
        // C08: no temp file is left behind
        assert!(!fsm::T_LINKED, "C08: no temporary file left behind");
        // C03/C04: nothing to insert => no filesystem operation at all
        if need == 0
        {
            assert!(fsm::OPS == 0 && !r.failure && r.num_inserted_references == 0,
                "C03: a file with nothing missing is not touched");
        }
        // C08: an injected failure is reported
        if injected || fsm::SILENT_FAILURES > 0
        {
            assert!(r.failure, "C08: a failed filesystem operation is reported as failure");
        }
        // C01: ids handed out are start, start+1, ... without wrapping
        assert!(NIDS <= need, "C01: at most one id per statement lacking a reference");
        let mut k = 0;
        while k < NENT
        {
            if k < NIDS
            {
                assert!(IDS[k] as u64 == start as u64 + k as u64, "C01: ids are consecutive from the counter, no wrap");
            }
            k += 1;
        }
        // C02: the shared counter dominates every id handed out (it is what the lock is written from)
        assert!(after as u64 >= start as u64 + NIDS as u64 || (NIDS > 0 && r.failure && after == u32::MAX),
            "C01/C02: the counter ends above every id handed out (no wrap)");
        if !r.failure
        {
            // C03/C05: success => the file is exactly original + one token per missing statement
            if need > 0
            {
                assert!(fsm::SRC_STATE[0] == fsm::REPLACED && fsm::T_OK && fsm::T_DISK == fsm::EXPECT_LEN
                    && fsm::T_ACC == fsm::EXPECT_LEN,
                    "C03: edited file is the original bytes plus one token per missing statement, in place");
            }
            assert!(r.num_inserted_references == need, "C05: reported count equals tokens inserted");
            assert!(NIDS == need, "C01: one id per statement lacking a reference");
        }
        else
        {
            // C07: failure => the file is still one of the two legal contents
            assert!(fsm::SRC_STATE[0] != fsm::CLOBBERED);
        }
    }
    std::mem::forget(entries);
    std::mem::forget(counter);
    std::mem::forget(params);
}

/// Entries that violate the parser's ordering guarantee: the run must fail and leave the file alone.
#[kani::proof]
#[kani::unwind(10)]
#[kani::stub(crate::parser::code_parser::LogRefEntry::insertable_reference_string, stub_token)]
#[kani::stub(AsyncTempFile::new, stub_tempfile_new)]
#[kani::stub(std::fs::remove_file, stub_remove_file)]
fn u_insert_unordered()
{
    let c = any_ascii_content();
    let (content, len) = (c.as_str(), c.len);
    let p1: usize = kani::any();
    let p2: usize = kani::any();
    kani::assume(p1 <= len && p2 < p1);
    let entries = vec![
        LogRefEntry::new(CodePosition::new(p1, 1, 1), None, String::new(), LogRefKind::String, None, None),
        LogRefEntry::new(CodePosition::new(p2, 1, 1), None, String::new(), LogRefKind::String, None, None),
    ];
    let counter = Arc::new(AtomicU32::new(1));
    let params = Some(counter.clone());
    unsafe {
        fsm::reset();
        fsm::SRC_PRESENT[0] = true;
        fsm::TARGET = 0;
        fsm::EXPECT_LEN = 0; // no complete new content exists: any replacement is a violation
        fsm::T_OK = false;
        NIDS = 0;
    }
    let r = InsertReferencesProcessor::map("a", content, &params, &entries);
    unsafe {
        assert!(r.is_some());
        let r = r.unwrap();
        assert!(r.failure, "C08: out-of-order insert positions are reported as failure");
        assert!(fsm::SRC_STATE[0] == fsm::ORIG && fsm::RENAMES_OK == 0, "C07: file untouched");
        assert!(!fsm::T_LINKED, "C08: no temporary file left behind");
        kani::cover!(len == NBYTES, "full length content");
    }
    std::mem::forget(entries);
    std::mem::forget(counter);
    std::mem::forget(params);
}

// ---------------------------------------------------------------------------------------------
// U-insert-reduce : InsertReferencesProcessor::reduce
// ---------------------------------------------------------------------------------------------
#[kani::proof]
#[kani::unwind(5)]
fn u_insert_reduce()
{
    let f1: bool = kani::any();
    let f2: bool = kani::any();
    let f3: bool = kani::any();
    let n1: usize = kani::any();
    let n2: usize = kani::any();
    let n3: usize = kani::any();
    kani::assume(n1 <= 1 << 40 && n2 <= 1 << 40 && n3 <= 1 << 40);
    let n: usize = kani::any();
    kani::assume(n <= 3);
    let all = [
        InsertReferencesResult { failure: f1, num_inserted_references: n1 },
        InsertReferencesResult { failure: f2, num_inserted_references: n2 },
        InsertReferencesResult { failure: f3, num_inserted_references: n3 },
    ];
    let r = InsertReferencesProcessor::reduce(&all[..n]);
    assert!(r.is_some());
    let r = r.unwrap();
    let mut fail = false;
    let mut sum = 0usize;
    let mut i = 0;
    while i < n
    {
        fail |= all[i].failure;
        sum += all[i].num_inserted_references;
        i += 1;
    }
    assert!(r.failure == fail, "C08: one failed file makes the whole pass failed");
    if !fail
    {
        assert!(r.num_inserted_references == sum, "C05: total = sum of per-file insertions");
    }
    kani::cover!(n == 3 && fail, "three files, one failed");
}

// Engine K harnesses for codegen/generate.rs. This file is dropped next to the (desugared) copy of
// /repo/src/codegen/generate.rs as a child module, so the private processors are reachable.
// Bounds are compile-time constants chosen by the runner through `--cfg blv_*` flags.
#![allow(static_mut_refs)]
#![allow(dead_code)]
#![allow(unused_imports)]

use super::*;
use crate::codegen::finder::{CodeFile, CodeFinder};
use crate::config::context::{Cache, Config, Context, RustConfig};
use crate::parser::code_parser::CodeLanguage;
use crate::parser::{CodePosition, LogRefEntry, LogRefKind};
use async_std::model as fsm;
use std::sync::atomic::{AtomicBool, AtomicU32, Ordering};
use std::sync::Arc;

// ---------------------------------------------------------------------------------------------
// bounds
// ---------------------------------------------------------------------------------------------
// NBYTES (symbolic file bytes) and NENT (entries per file) are written by the runner per tier
include!("verif_bounds.rs");

pub const MARKER: u8 = 0x7f;

// ---------------------------------------------------------------------------------------------
// symbolic inputs go through these wrappers: in replay mode (REPLAY_ON, written by the runner together
// with the values Kani's concrete playback printed for a counterexample) they return the recorded
// values, so the counterexample is re-executed with every input pinned.
// ---------------------------------------------------------------------------------------------
include!("verif_replay.rs");
static mut RP_IDX: usize = 0;

fn rp_next() -> [u8; 8]
{
    unsafe {
        let i = RP_IDX;
        RP_IDX += 1;
        let mut out = [0u8; 8];
        if i < REPLAY_N
        {
            // unrolled: harnesses run with small unwinding bounds
            out[0] = REPLAY_FLAT[i * 8];
            out[1] = REPLAY_FLAT[i * 8 + 1];
            out[2] = REPLAY_FLAT[i * 8 + 2];
            out[3] = REPLAY_FLAT[i * 8 + 3];
            out[4] = REPLAY_FLAT[i * 8 + 4];
            out[5] = REPLAY_FLAT[i * 8 + 5];
            out[6] = REPLAY_FLAT[i * 8 + 6];
            out[7] = REPLAY_FLAT[i * 8 + 7];
        }
        out
    }
}
fn sym_u8() -> u8
{
    if REPLAY_ON { rp_next()[0] } else { kani::any() }
}
fn sym_bool() -> bool
{
    if REPLAY_ON { rp_next()[0] != 0 } else { kani::any() }
}
fn sym_u32() -> u32
{
    if REPLAY_ON { let b = rp_next(); u32::from_le_bytes([b[0], b[1], b[2], b[3]]) } else { kani::any() }
}
fn sym_u64() -> u64
{
    if REPLAY_ON { let b = rp_next(); u64::from_le_bytes([b[0], b[1], b[2], b[3], b[4], b[5], b[6], b[7]]) } else { kani::any() }
}
fn sym_usize() -> usize
{
    sym_u64() as usize
}
unsafe fn sym_drain()
{
    fsm::DRAIN[0] = sym_usize();
    fsm::DRAIN[1] = sym_usize();
    fsm::DRAIN[2] = sym_usize();
    fsm::DRAIN[3] = sym_usize();
    fsm::DRAIN[4] = sym_usize();
    fsm::DRAIN[5] = sym_usize();
    fsm::DRAIN[6] = sym_usize();
    fsm::DRAIN[7] = sym_usize();
    fsm::DRAIN[8] = sym_usize();
    fsm::DRAIN[9] = sym_usize();
    fsm::DRAIN[10] = sym_usize();
    fsm::DRAIN[11] = sym_usize();
    fsm::DRAIN[12] = sym_usize();
    fsm::DRAIN[13] = sym_usize();
    fsm::DRAIN[14] = sym_usize();
    fsm::DRAIN[15] = sym_usize();
    fsm::DRAIN[16] = sym_usize();
    fsm::DRAIN[17] = sym_usize();
    fsm::DRAIN[18] = sym_usize();
    fsm::DRAIN[19] = sym_usize();
    fsm::DRAIN[20] = sym_usize();
    fsm::DRAIN[21] = sym_usize();
    fsm::DRAIN[22] = sym_usize();
    fsm::DRAIN[23] = sym_usize();
    fsm::DRAIN[24] = sym_usize();
    fsm::DRAIN[25] = sym_usize();
    fsm::DRAIN[26] = sym_usize();
    fsm::DRAIN[27] = sym_usize();
    fsm::DRAIN[28] = sym_usize();
    fsm::DRAIN[29] = sym_usize();
    fsm::DRAIN[30] = sym_usize();
    fsm::DRAIN[31] = sym_usize();
}

/// Stub for `std::alloc::dealloc`: memory is never freed. Safe Rust cannot observe a free, and CBMC's
/// allocator model otherwise raises spurious assertions (`free argument has offset zero`, ..) whose
/// presence depends on unrelated details of the build.
unsafe fn stub_dealloc(_ptr: *mut u8, _layout: std::alloc::Layout) {}

// ---------------------------------------------------------------------------------------------
// ghost state written by stubs
// ---------------------------------------------------------------------------------------------
pub const MAXIDS: usize = 8;
static mut IDS: [u32; MAXIDS] = [0; MAXIDS];
static mut NIDS: usize = 0;

/// Stub for `LogRefEntry::insertable_reference_string`: records the ID handed out and returns a
/// one-byte marker, so that the ID stays symbolic over the whole u32 range (decimal formatting
/// of a symbolic number is out of CBMC's reach; the token text is Engine S's subject).
fn stub_token(_e: &LogRefEntry, reference_id: u32) -> String
{
    unsafe {
        if NIDS < MAXIDS
        {
            IDS[NIDS] = reference_id;
        }
        NIDS += 1;
        String::from_utf8_unchecked(vec![MARKER])
    }
}

/// Stub for `AsyncTempFile::new`: the temp file is the model path "h"; creation can fail.
fn stub_tempfile_new() -> Result<AsyncTempFile, String>
{
    match async_std::fs::File::create("h")
    {
        Ok(f) => Ok(AsyncTempFile {
            path: String::from("h"),
            file: f,
        }),
        Err(_) => Err(String::new()),
    }
}

/// Stub for `std::fs::remove_file` (used by `AsyncTempFile::drop`): unlink in the model. The
/// unlink of the temp file itself is assumed not to fail (nothing could be done about that).
fn stub_remove_file<P: AsRef<std::path::Path>>(path: P) -> std::io::Result<()>
{
    unsafe {
        let id = fsm::path_id(path.as_ref().as_os_str().as_encoded_bytes());
        fsm::OPS += 1;
        if id == fsm::NONE
        {
            return Err(std::io::Error::from(std::io::ErrorKind::NotFound));
        }
        if id < fsm::NSRC
        {
            fsm::MUTATIONS += 1;
            fsm::clobber(id);
            return Ok(());
        }
        if !fsm::T_LINKED
        {
            return Err(std::io::Error::from(std::io::ErrorKind::NotFound));
        }
        fsm::MUTATIONS += 1;
        fsm::T_LINKED = false;
        if fsm::T_AT == fsm::NONE
        {
            fsm::T_OPEN = false;
        }
        Ok(())
    }
}

// ---------------------------------------------------------------------------------------------
// symbolic inputs
// ---------------------------------------------------------------------------------------------
fn any_kind() -> LogRefKind
{
    let k: u8 = sym_u8();
    kani::assume(k < 4);
    match k
    {
        0 => LogRefKind::Unknown,
        1 => LogRefKind::String,
        2 => LogRefKind::StructuredPreExisting,
        _ => LogRefKind::StructuredNew,
    }
}

/// Plain-data view of the symbolic entries (the oracle works on this, the code under test on the
/// `LogRefEntry` values built from it).
#[derive(Clone, Copy)]
struct E
{
    pos: usize,
    has_ref: bool,
    reference: u32,
    preexisting_kind: bool,
}

impl E
{
    /// Written from the property text: a statement "lacking a reference", where a structured `ref`
    /// key with a non-literal value is "unusable rather than missing".
    fn needs_id(&self) -> bool
    {
        !self.has_ref && !self.preexisting_kind
    }
}

/// NENT entries with strictly increasing offsets within `len` (what the parser guarantees; Engine S
/// discharges this on the grammar). Fewer entries are covered because an entry that already has a
/// reference is invisible to every processor except for its ID value.
fn any_entries(len: usize) -> ([E; NENT], Vec<LogRefEntry>)
{
    let mut es = [E { pos: 0, has_ref: false, reference: 0, preexisting_kind: false }; NENT];
    let mut v: Vec<LogRefEntry> = Vec::with_capacity(NENT);
    let mut i = 0;
    while i < NENT
    {
        let pos: usize = sym_usize();
        kani::assume(pos <= len);
        if i > 0
        {
            kani::assume(pos > es[i - 1].pos);
        }
        let has_ref: bool = sym_bool();
        let reference: u32 = sym_u32();
        let kind = any_kind();
        es[i] = E { pos, has_ref, reference, preexisting_kind: kind == LogRefKind::StructuredPreExisting };
        v.push(LogRefEntry::new(
            CodePosition::new(pos, sym_usize(), sym_usize()),
            if has_ref { Some(reference) } else { None },
            String::new(),
            kind,
            None,
            None,
        ));
        i += 1;
    }
    (es, v)
}

struct Content
{
    bytes: [u8; NBYTES],
    len: usize,
}

impl Content
{
    /// No heap allocation: the `&str` handed to the code under test points into this struct.
    fn as_str(&self) -> &str
    {
        unsafe { std::str::from_utf8_unchecked(&self.bytes[..self.len]) }
    }
}

fn any_ascii_content() -> Content
{
    let mut bytes = [0u8; NBYTES];
    let mut bi = 0;
    while bi < NBYTES
    {
        bytes[bi] = sym_u8();
        bi += 1;
    }
    let len: usize = sym_usize();
    kani::assume(len <= NBYTES);
    let mut i = 0;
    while i < NBYTES
    {
        kani::assume(bytes[i] >= 0x20 && bytes[i] < MARKER);
        i += 1;
    }
    Content { bytes, len }
}

/// `str::chars().count()` of core is a word-at-a-time loop with alignment arithmetic that CBMC cannot bound; same
/// function as a plain loop (a character starts at every byte that is not a continuation byte)
fn stub_count_chars(s: &str) -> usize
{
    let b = s.as_bytes();
    let mut n = 0;
    let mut i = 0;
    while i < b.len()
    {
        if b[i] & 0xc0 != 0x80
        {
            n += 1;
        }
        i += 1;
    }
    n
}

/// Where the two-byte character of `any_utf8_content` starts (usize::MAX: none).
static mut WIDE_AT: usize = usize::MAX;

/// ASCII content with one two-byte UTF-8 character (U+00E9) at a symbolic place: byte offsets and character
/// counts differ from there on.
fn any_utf8_content() -> Content
{
    let mut c = any_ascii_content();
    let at: usize = sym_usize();
    kani::assume(at < NBYTES && at + 2 <= c.len);
    let mut i = 0;
    while i < NBYTES
    {
        if i == at
        {
            c.bytes[i] = 0xc3;
        }
        if i == at + 1
        {
            c.bytes[i] = 0xa9;
        }
        i += 1;
    }
    unsafe { WIDE_AT = at };
    c
}

fn count_needing(es: &[E; NENT]) -> usize
{
    let mut n = 0;
    let mut i = 0;
    while i < NENT
    {
        if es[i].needs_id()
        {
            n += 1;
        }
        i += 1;
    }
    n
}

fn byte_at(bytes: &[u8; NBYTES], i: usize) -> u8
{
    // concrete-index reads only
    let mut k = 0;
    let mut r = 0u8;
    while k < NBYTES
    {
        if k == i
        {
            r = bytes[k];
        }
        k += 1;
    }
    r
}

/// Byte j of the file the property demands after a complete edit: the original bytes with one
/// marker in front of every entry that lacks a reference. Marker k (k-th entry needing an id, at
/// original offset p_k) sits at output position p_k + k.
fn expected_at(bytes: &[u8; NBYTES], es: &[E; NENT], j: usize) -> u8
{
    let mut markers_before = 0usize; // markers strictly before output position j
    let mut is_marker = false;
    let mut k = 0usize; // index among entries needing an id
    let mut i = 0;
    while i < NENT
    {
        if es[i].needs_id()
        {
            let at = es[i].pos + k;
            if at == j
            {
                is_marker = true;
            }
            if at < j
            {
                markers_before += 1;
            }
            k += 1;
        }
        i += 1;
    }
    if is_marker
    {
        MARKER
    }
    else
    {
        byte_at(bytes, j - markers_before)
    }
}

unsafe fn register_expected(bytes: &[u8; NBYTES], len: usize, es: &[E; NENT], target: usize)
{
    fsm::TARGET = target;
    fsm::EXPECT_LEN = len + count_needing(es);
    let mut j = 0;
    while j < NBYTES + NENT
    {
        fsm::EXPECT[j] = expected_at(bytes, es, j);
        j += 1;
    }
}

unsafe fn any_faults()
{
    fsm::FAIL_MASK = sym_u32();
    sym_drain();
}

// ---------------------------------------------------------------------------------------------
// U-nextid : NextReferenceIdProcessor::map + reduce over 2 files
// ---------------------------------------------------------------------------------------------
fn max_existing(es: &[E; NENT]) -> u32
{
    let mut m = 0;
    let mut i = 0;
    while i < NENT
    {
        if es[i].has_ref && es[i].reference > m
        {
            m = es[i].reference;
        }
        i += 1;
    }
    m
}

#[kani::proof]
#[kani::stub(std::alloc::dealloc, stub_dealloc)]
#[kani::unwind(5)]
fn u_nextid()
{
    log::set_max_level(log::LevelFilter::Off);
    let (s1, e1) = any_entries(8);
    let (s2, e2) = any_entries(8);
    let m1 = max_existing(&s1);
    let m2 = max_existing(&s2);
    let m = if m1 > m2 { m1 } else { m2 };
    let missing = count_needing(&s1) + count_needing(&s2);
    kani::cover!(m == u32::MAX, "existing id at the u32 boundary");
    let r1 = NextReferenceIdProcessor::map("a", "", &None, &e1);
    let r2 = NextReferenceIdProcessor::map("b", "", &None, &e2);
    assert!(r1.is_some() && r2.is_some());
    let res = NextReferenceIdProcessor::reduce(&[r1.unwrap(), r2.unwrap()]);
    kani::cover!(m == 0 && missing == 2 * NENT, "no ids yet, everything missing");
    match res
    {
        Some((next, miss)) =>
        {
            assert!(next >= 1, "C01: next id is at least 1");
            // the value u32::MAX doubles as "range exhausted": the insert pass hands out nothing from it
            assert!((next as u64) > (m as u64) || (m == u32::MAX && next == u32::MAX),
                "C01: next id is above every existing id (or the range is exhausted)");
            assert!(miss == missing, "C05/C06: first pass counts exactly the statements lacking a reference");
        },
        None =>
        {
            assert!(false, "C06: the first pass always produces a result");
        },
    }
    std::mem::forget(e1);
    std::mem::forget(e2);
}

// ---------------------------------------------------------------------------------------------
// U-count : CountMissingReferenceIdProcessor::map + reduce
// ---------------------------------------------------------------------------------------------
#[kani::proof]
#[kani::stub(std::alloc::dealloc, stub_dealloc)]
#[kani::unwind(5)]
fn u_count()
{
    log::set_max_level(log::LevelFilter::Off);
    let (s1, e1) = any_entries(8);
    let (s2, e2) = any_entries(8);
    unsafe {
        fsm::reset();
    }
    let r1 = CountMissingReferenceIdProcessor::map("a", "", &None, &e1);
    let r2 = CountMissingReferenceIdProcessor::map("b", "", &None, &e2);
    assert!(r1.is_some() && r2.is_some());
    let n1 = count_needing(&s1);
    let n2 = count_needing(&s2);
    assert!(r1.unwrap() as usize == n1, "C05/C06: per-file missing count");
    let total = CountMissingReferenceIdProcessor::reduce(&[r1.unwrap(), r2.unwrap()]);
    assert!(total.is_some());
    assert!(total.unwrap() as usize == n1 + n2, "C05/C06: total missing count");
    kani::cover!(n1 + n2 == 2 * NENT, "all missing");
    kani::cover!(n1 + n2 == 0, "none missing");
    unsafe {
        assert!(fsm::OPS == 0, "C04: counting touches no file");
    }
    std::mem::forget(e1);
    std::mem::forget(e2);
}

// ---------------------------------------------------------------------------------------------
// U-insert : InsertReferencesProcessor::map against the FS model
// ---------------------------------------------------------------------------------------------
#[kani::proof]
#[kani::stub(std::alloc::dealloc, stub_dealloc)]
#[kani::unwind(10)]
#[kani::stub(crate::parser::code_parser::LogRefEntry::insertable_reference_string, stub_token)]
#[kani::stub(AsyncTempFile::new, stub_tempfile_new)]
#[kani::stub(std::fs::remove_file, stub_remove_file)]
fn u_insert()
{
    log::set_max_level(log::LevelFilter::Off);
    insert_body(true, true);
}

/// Symbolic content, entries, counter and write-cache drain points; no injected failures.
#[kani::proof]
#[kani::stub(std::alloc::dealloc, stub_dealloc)]
#[kani::unwind(10)]
#[kani::stub(crate::parser::code_parser::LogRefEntry::insertable_reference_string, stub_token)]
#[kani::stub(AsyncTempFile::new, stub_tempfile_new)]
#[kani::stub(std::fs::remove_file, stub_remove_file)]
fn u_insert_content()
{
    log::set_max_level(log::LevelFilter::Off);
    insert_body(false, true);
}

/// As u_insert_content, with a two-byte character somewhere in the file (byte offsets != character counts).
#[kani::proof]
#[kani::stub(std::alloc::dealloc, stub_dealloc)]
#[kani::unwind(10)]
#[kani::stub(crate::parser::code_parser::LogRefEntry::insertable_reference_string, stub_token)]
#[kani::stub(AsyncTempFile::new, stub_tempfile_new)]
#[kani::stub(std::fs::remove_file, stub_remove_file)]
#[kani::stub(core::str::count::count_chars, stub_count_chars)]
fn u_insert_utf8()
{
    log::set_max_level(log::LevelFilter::Off);
    insert_body_with(false, true, true);
}

/// Every subset of failing operations and drain points; symbolic entries and counter; the file
/// content is the fixed string of distinct bytes "abcd.." (content bytes are never inspected by
/// the code under test; u_insert_content covers arbitrary bytes).
#[kani::proof]
#[kani::stub(std::alloc::dealloc, stub_dealloc)]
#[kani::unwind(10)]
#[kani::stub(crate::parser::code_parser::LogRefEntry::insertable_reference_string, stub_token)]
#[kani::stub(AsyncTempFile::new, stub_tempfile_new)]
#[kani::stub(std::fs::remove_file, stub_remove_file)]
fn u_insert_faults()
{
    log::set_max_level(log::LevelFilter::Off);
    insert_body(true, false);
}

fn insert_body(faults: bool, symbolic_content: bool)
{
    insert_body_with(faults, symbolic_content, false)
}

fn insert_body_with(faults: bool, symbolic_content: bool, wide: bool)
{
    let c = if wide
    {
        any_utf8_content()
    }
    else if symbolic_content
    {
        any_ascii_content()
    }
    else
    {
        let mut bytes = [0u8; NBYTES];
        let mut i = 0;
        while i < NBYTES
        {
            bytes[i] = b'a' + i as u8;
            i += 1;
        }
        Content { bytes, len: NBYTES }
    };
    let (content, bytes, len) = (c.as_str(), c.bytes, c.len);
    let (es, entries) = any_entries(len);
    if wide
    {
        // the parser reports character boundaries (Engine S: c05/c03 positions)
        let mut k = 0;
        while k < NENT
        {
            kani::assume(es[k].pos != unsafe { WIDE_AT } + 1);
            k += 1;
        }
    }
    let start: u32 = sym_u32();
    kani::assume(start >= 1);
    let counter = Arc::new(AtomicU32::new(start));
    let params = Some(counter.clone());
    let need = count_needing(&es);
    unsafe {
        fsm::reset();
        fsm::SRC_PRESENT[0] = true;
        register_expected(&bytes, len, &es, 0);
        if faults
        {
            fsm::FAIL_MASK = sym_u32();
            fsm::ERR_KIND = sym_u8();
        }
        sym_drain();
        NIDS = 0;
    }

    let r = InsertReferencesProcessor::map("a", content, &params, &entries);

    unsafe {
        assert!(!fsm::MODEL_OVERFLOW && !fsm::FOREIGN_PATH, "model bound respected");
        assert!(r.is_some());
        let r = r.unwrap();
        let after = counter.load(Ordering::Relaxed);
        let injected = fsm::FAILED_OPS > 0;
        kani::cover!(need == NENT && !r.failure, "all entries inserted successfully");
        kani::cover!(!faults || (injected && r.failure), "an injected fault is reported");
        kani::cover!(need > 0 && start == u32::MAX, "counter at the u32 boundary");
        kani::cover!(!faults || fsm::SILENT_FAILURES > 0, "a flush failing inside Drop is possible");

        // C07: at every operation boundary the source was the original or the complete new file
        assert!(!fsm::ATOMICITY_BROKEN, "C07: source file is original or complete at every operation boundary");
        // C08: no temp file is left behind
        assert!(!fsm::T_LINKED, "C08: no temporary file left behind");
        // C03/C04: nothing to insert => no filesystem operation at all
        if need == 0
        {
            assert!(fsm::OPS == 0 && !r.failure && r.num_inserted_references == 0,
                "C03/C13: a file with nothing missing is not touched");
        }
        // C08: an injected failure is reported
        if injected || fsm::SILENT_FAILURES > 0
        {
            assert!(r.failure, "C08: a failed filesystem operation is reported as failure");
        }
        // C01: ids handed out are start, start+1, ... without wrapping
        assert!(NIDS <= need, "C01/C13: at most one id per statement lacking a reference");
        let mut k = 0;
        while k < NENT
        {
            if k < NIDS
            {
                assert!(IDS[k] as u64 == start as u64 + k as u64, "C01: ids are consecutive from the counter, no wrap");
            }
            k += 1;
        }
        // C02: the shared counter dominates every id handed out (it is what the lock is written from)
        assert!(after as u64 == start as u64 + NIDS as u64,
            "C01/C02: the counter ends just above the last id handed out (no wrap)");
        if !r.failure
        {
            // C03/C05: success => the file is exactly original + one token per missing statement
            if need > 0
            {
                assert!(fsm::SRC_STATE[0] == fsm::REPLACED && fsm::T_OK && fsm::T_DISK == fsm::EXPECT_LEN
                    && fsm::T_ACC == fsm::EXPECT_LEN,
                    "C03/C13: edited file is the original bytes plus one token per missing statement, in place");
            }
            assert!(r.num_inserted_references == need, "C05/C06: reported count equals tokens inserted");
            assert!(NIDS == need, "C01/C13: one id per statement lacking a reference");
        }
        else
        {
            // C07: failure => the file is still one of the two legal contents
            assert!(fsm::SRC_STATE[0] != fsm::CLOBBERED);
            // C05: what a file contributes to the printed count is what it contributed to the tree
            let in_tree = if fsm::SRC_STATE[0] == fsm::REPLACED { need } else { 0 };
            if fsm::RENAMES_FAILED > 0
            {
                assert!(r.num_inserted_references == in_tree,
                    "C05: [rename-failure-count] a file whose rename failed is counted with its insertions although none of them is in the tree");
            }
            else
            {
                assert!(r.num_inserted_references == in_tree,
                    "C05: a file that could not be updated adds nothing to the count of inserted references");
            }
        }
    }
    std::mem::forget(entries);
    std::mem::forget(counter);
    std::mem::forget(params);
}

/// Entries that violate the parser's ordering guarantee: the run must fail and leave the file alone.
#[kani::proof]
#[kani::stub(std::alloc::dealloc, stub_dealloc)]
#[kani::unwind(10)]
#[kani::stub(crate::parser::code_parser::LogRefEntry::insertable_reference_string, stub_token)]
#[kani::stub(AsyncTempFile::new, stub_tempfile_new)]
#[kani::stub(std::fs::remove_file, stub_remove_file)]
fn u_insert_unordered()
{
    log::set_max_level(log::LevelFilter::Off);
    let c = any_ascii_content();
    let (content, len) = (c.as_str(), c.len);
    let p1: usize = sym_usize();
    let p2: usize = sym_usize();
    kani::assume(p1 <= len && p2 < p1);
    let entries = vec![
        LogRefEntry::new(CodePosition::new(p1, 1, 1), None, String::new(), LogRefKind::String, None, None),
        LogRefEntry::new(CodePosition::new(p2, 1, 1), None, String::new(), LogRefKind::String, None, None),
    ];
    let counter = Arc::new(AtomicU32::new(1));
    let params = Some(counter.clone());
    unsafe {
        fsm::reset();
        fsm::SRC_PRESENT[0] = true;
        fsm::TARGET = 0;
        fsm::EXPECT_LEN = 0; // no complete new content exists: any replacement is a violation
        fsm::T_OK = false;
        NIDS = 0;
    }
    let r = InsertReferencesProcessor::map("a", content, &params, &entries);
    unsafe {
        assert!(r.is_some());
        let r = r.unwrap();
        assert!(r.failure, "C08: out-of-order insert positions are reported as failure");
        assert!(fsm::SRC_STATE[0] == fsm::ORIG && fsm::RENAMES_OK == 0, "C07: file untouched");
        assert!(!fsm::T_LINKED, "C08: no temporary file left behind");
        kani::cover!(len == NBYTES, "full length content");
    }
    std::mem::forget(entries);
    std::mem::forget(counter);
    std::mem::forget(params);
}

// ---------------------------------------------------------------------------------------------
// U-insert-reduce : InsertReferencesProcessor::reduce
// ---------------------------------------------------------------------------------------------
#[kani::proof]
#[kani::stub(std::alloc::dealloc, stub_dealloc)]
#[kani::unwind(5)]
fn u_insert_reduce()
{
    log::set_max_level(log::LevelFilter::Off);
    let f1: bool = sym_bool();
    let f2: bool = sym_bool();
    let f3: bool = sym_bool();
    let n1: usize = sym_usize();
    let n2: usize = sym_usize();
    let n3: usize = sym_usize();
    kani::assume(n1 <= 1 << 40 && n2 <= 1 << 40 && n3 <= 1 << 40);
    let n: usize = sym_usize();
    kani::assume(n <= 3);
    let all = [
        InsertReferencesResult { failure: f1, num_inserted_references: n1 },
        InsertReferencesResult { failure: f2, num_inserted_references: n2 },
        InsertReferencesResult { failure: f3, num_inserted_references: n3 },
    ];
    let r = InsertReferencesProcessor::reduce(&all[..n]);
    assert!(r.is_some());
    let r = r.unwrap();
    let mut fail = false;
    let mut sum = 0usize;
    let mut i = 0;
    while i < n
    {
        fail |= all[i].failure;
        sum += all[i].num_inserted_references;
        i += 1;
    }
    assert!(r.failure == fail, "C08: one failed file makes the whole pass failed");
    if !fail
    {
        assert!(r.num_inserted_references == sum, "C05: total = sum of per-file insertions");
    }
    kani::cover!(n == 3 && fail, "three files, one failed");
}

// ---------------------------------------------------------------------------------------------
// Drivers: real generate_code / check_references with process_references replaced by its contract
// ---------------------------------------------------------------------------------------------
// Ghost description of the tree the (stubbed) passes run over.
static mut G_MAX: u32 = 0; // largest existing id (0 = none)
static mut G_MISSING: usize = 0; // statements lacking a reference (in readable files)
static mut G_NFILES: usize = 0;
static mut G_FINDER_FAILS: bool = false;
static mut G_NAMED_FILES: bool = false;
// Ghost outcome of the passes.
static mut G_STOPPED: bool = false; // some pass was interrupted by the stop flag
static mut G_EXHAUSTED: bool = false;
static mut G_INSERT_RAN: bool = false;
static mut G_INSERT_FAILED: bool = false;
static mut G_START: u64 = 0; // counter value when the insert pass started
static mut G_T: u64 = 0; // ids taken from the counter
static mut G_W: u64 = 0; // tokens that reached the disk (ids within [G_START, G_START+G_T))
static mut G_PASSES: usize = 0;
// Lock model.
static mut LOCK_PRESENT: bool = false;
static mut LOCK_VALUE: u32 = 0;
static mut LOCK_WRITES: usize = 0;
static mut LAST_SERIALIZED: u32 = 0;
static mut LOCK_WRITTEN_BEFORE_TOKENS: bool = false;
// Lock as it was on disk at the moment the insert pass put its tokens on disk.
static mut LOCK_AT_TOKENS_PRESENT: bool = false;
static mut LOCK_AT_TOKENS_VALUE: u32 = 0;

unsafe fn reset_ghost()
{
    G_STOPPED = false;
    G_EXHAUSTED = false;
    G_INSERT_RAN = false;
    G_INSERT_FAILED = false;
    G_START = 0;
    G_T = 0;
    G_W = 0;
    G_PASSES = 0;
    LOCK_WRITES = 0;
    LOCK_WRITTEN_BEFORE_TOKENS = false;
}

trait PrParam
{
    fn counter(&self) -> Option<&AtomicU32>;
}
impl PrParam for u32
{
    fn counter(&self) -> Option<&AtomicU32>
    {
        None
    }
}
impl PrParam for Arc<AtomicU32>
{
    fn counter(&self) -> Option<&AtomicU32>
    {
        Some(&**self)
    }
}

/// What a pass returns, per processor; discharged on the real map/reduce by u_nextid, u_count,
/// u_insert*, u_insert_reduce and on the real loop by u_pr*.
trait PrResult: Sized
{
    unsafe fn contract(counter: Option<&AtomicU32>) -> Self;
    fn may_be_none() -> bool
    {
        false
    }
}
impl PrResult for (u32, usize)
{
    unsafe fn contract(_c: Option<&AtomicU32>) -> Self
    {
        // u_nextid: next >= 1, next > every existing id, missing counted exactly
        let next: u32 = sym_u32();
        kani::assume(next >= 1 && (next > G_MAX || (G_MAX == u32::MAX && next == u32::MAX)));
        (next, G_MISSING)
    }
}
impl PrResult for u32
{
    unsafe fn contract(_c: Option<&AtomicU32>) -> Self
    {
        G_MISSING as u32
    }
}
impl PrResult for InsertReferencesResult
{
    unsafe fn contract(counter: Option<&AtomicU32>) -> Self
    {
        // u_insert: a file with nothing missing is not touched and cannot fail
        let failure: bool = sym_bool();
        kani::assume(!failure || G_MISSING > 0);
        let (t, w) = insert_effect(counter, failure, false);
        let reported: usize = if failure { sym_usize() } else { w as usize };
        G_INSERT_FAILED = failure;
        let _ = t;
        InsertReferencesResult {
            failure,
            num_inserted_references: reported,
        }
    }
}

/// Effect of a (possibly interrupted or failed) insert pass on the shared counter and the disk,
/// as established per file by u_insert*: every token on disk carries an id taken from the counter,
/// ids are consecutive from the counter's start value, the counter ends at start + ids taken and
/// never wraps; a pass that neither failed nor was interrupted inserted every missing reference.
unsafe fn insert_effect(counter: Option<&AtomicU32>, failure: bool, stopped: bool) -> (u64, u64)
{
    G_INSERT_RAN = true;
    let c = counter.unwrap();
    let start = c.load(Ordering::Relaxed) as u64;
    let t: u64 = sym_u64();
    let w: u64 = sym_u64();
    kani::assume(w <= t && t <= G_MISSING as u64);
    kani::assume(start + t <= u32::MAX as u64);
    if !failure && !stopped
    {
        kani::assume(w == G_MISSING as u64 && t == w);
    }
    c.store((start + t) as u32, Ordering::Relaxed);
    G_START = start;
    G_T = t;
    G_W = w;
    if w > 0 && LOCK_WRITES > 0
    {
        LOCK_WRITTEN_BEFORE_TOKENS = true;
    }
    LOCK_AT_TOKENS_PRESENT = LOCK_PRESENT;
    LOCK_AT_TOKENS_VALUE = LOCK_VALUE;
    (t, w)
}

fn stub_process_references<
    'generator,
    ProcessorType,
    Param: Send + Clone + 'static + PrParam,
    MapResult: Send + 'static,
    ReduceResult: PrResult,
>(
    context: &'generator Context,
    params: Option<Param>,
    _finder: &'generator CodeFinder,
) -> Option<ReduceResult>
where
    ProcessorType: ReferenceProcessor<Param, MapResult, ReduceResult>,
{
    unsafe {
        G_PASSES += 1;
        let counter = match &params
        {
            Some(p) => p.counter(),
            None => None,
        };
        // u_pr*: the loop returns None exactly when it sees the stop flag set, and it looks before
        // every file and before reduce. A flag already set on entry means no file is processed.
        if context.stop_commanded.load(Ordering::Relaxed)
        {
            G_STOPPED = true;
            return None;
        }
        // a signal may arrive at any operation boundary of the pass
        let signal_now: bool = sym_bool();
        if signal_now
        {
            context.stop_commanded.store(true, Ordering::Relaxed);
            G_STOPPED = true;
            if counter.is_some()
            {
                insert_effect(counter, false, true);
            }
            return None;
        }
        if ReduceResult::may_be_none() && sym_bool()
        {
            G_EXHAUSTED = true;
            return None;
        }
        Some(ReduceResult::contract(counter))
    }
}

fn stub_finder_find<'ctx>(this: &mut CodeFinder<'ctx>) -> bool
where
    'ctx: 'ctx,
{
    unsafe {
        if G_FINDER_FAILS
        {
            return false;
        }
        let mut v: Vec<CodeFile> = Vec::with_capacity(2);
        let mut i = 0;
        while i < G_NFILES
        {
            // named (heap-allocated) paths only where the loop under test reads them (u_pr)
            let path = if G_NAMED_FILES { String::from(if i == 0 { "a" } else { "b" }) } else { String::new() };
            v.push(CodeFile::new(path, CodeLanguage::Rust));
            i += 1;
        }
        this.code_files = v;
        true
    }
}

/// `Path::join` grows a PathBuf; CBMC's realloc model then trips (spuriously, and depending on
/// unrelated details of the build) over its deallocation. The lock path is irrelevant to the model.
fn stub_path_join<P: AsRef<std::path::Path>>(_this: &std::path::Path, _p: P) -> std::path::PathBuf
{
    std::path::PathBuf::new()
}

/// Contract of `Context::cache_next_reference_id`, discharged on the real function by u_ctx_write:
/// with use_cache off nothing happens, otherwise the lock file records exactly the id it is given
/// (whatever the stop flag or the mode say).
static mut LOCK_DIR_OK: bool = true;

fn stub_cache_next_reference_id(this: &Context, id: u32, directory_path: &str)
{
    unsafe {
        // (C15) the directory the lock goes to is the configuration file's, "c" in these harnesses
        let d = directory_path.as_bytes();
        let c = this.config.config_dir.as_bytes();
        if d.len() != c.len() || (d.len() == 1 && d[0] != c[0])
        {
            LOCK_DIR_OK = false;
        }
        if this.config.use_cache
        {
            LOCK_WRITES += 1;
            LOCK_PRESENT = true;
            LOCK_VALUE = id;
        }
    }
}

trait LockPeek
{
    fn peek(&self) -> u32;
}
impl LockPeek for Cache
{
    fn peek(&self) -> u32
    {
        self.next_reference_id
    }
}

fn stub_yaml_to_string<T>(value: &T) -> Result<String, serde_yaml::Error>
where
    T: ?Sized + serde::Serialize + LockPeek,
{
    unsafe {
        LAST_SERIALIZED = value.peek();
    }
    Ok(String::new())
}

/// The lock file write. It is assumed to succeed (a failing lock write is the same window as the
/// recorded finding "tokens reach the disk before the lock does").
fn stub_fs_write<P: AsRef<std::path::Path>, C: AsRef<[u8]>>(path: P, contents: C) -> std::io::Result<()>
{
    // the yaml text was grown by insert_str (realloc): CBMC's allocator model is brittle about freeing it
    std::mem::forget(path);
    std::mem::forget(contents);
    unsafe {
        LOCK_WRITES += 1;
        LOCK_PRESENT = true;
        LOCK_VALUE = LAST_SERIALIZED;
    }
    Ok(())
}

fn any_context(check_mode: bool) -> Context
{
    let use_cache: bool = sym_bool();
    let lock_before: Option<u32> = unsafe {
        LOCK_PRESENT = sym_bool();
        LOCK_VALUE = sym_u32();
        // Context::new only reads the lock when use_cache is on; an unparsable lock reads as None
        if use_cache && LOCK_PRESENT && sym_bool() { Some(LOCK_VALUE) } else { None }
    };
    Context {
        config: Config {
            config_dir: String::from("c"),
            source_dir: String::from("s"),
            use_cache,
            rust: RustConfig {
                structured: sym_bool(),
                log_macros: Vec::new(),
                extensions: Vec::new(),
            },
        },
        cached_next_reference_id: lock_before,
        check_mode,
        stop_commanded: Arc::new(AtomicBool::new(sym_bool())),
    }
}

unsafe fn any_tree()
{
    G_MAX = sym_u32();
    G_MISSING = sym_usize();
    kani::assume(G_MISSING <= 3);
    G_NFILES = sym_usize();
    kani::assume(G_NFILES <= 2);
    G_FINDER_FAILS = sym_bool();
}

#[kani::proof]
#[kani::unwind(4)]
#[kani::stub(process_references, stub_process_references)]
#[kani::stub(crate::codegen::finder::CodeFinder::find, stub_finder_find)]
#[kani::stub(crate::config::context::Context::cache_next_reference_id, stub_cache_next_reference_id)]
#[kani::stub(std::alloc::dealloc, stub_dealloc)]
fn d_generate()
{
    log::set_max_level(log::LevelFilter::Off);
    generate_body(false);
}

/// Same run, but asking about the operation boundary right after the insert pass: would a kill
/// there leave ids on disk that the lock file does not cover?
#[kani::proof]
#[kani::stub(std::alloc::dealloc, stub_dealloc)]
#[kani::unwind(4)]
#[kani::stub(process_references, stub_process_references)]
#[kani::stub(crate::codegen::finder::CodeFinder::find, stub_finder_find)]
#[kani::stub(crate::config::context::Context::cache_next_reference_id, stub_cache_next_reference_id)]
fn d_generate_kill()
{
    log::set_max_level(log::LevelFilter::Off);
    generate_body(true);
}

fn generate_body(kill_window: bool)
{
    unsafe {
        fsm::reset();
        reset_ghost();
        any_tree();
    }
    let ctx = any_context(false);
    let use_cache = ctx.config.use_cache;
    let cached = ctx.cached_next_reference_id;
    let stop_before = ctx.stop_commanded.load(Ordering::Relaxed);
    let lock_present_before = unsafe { LOCK_PRESENT };
    let lock_value_before = unsafe { LOCK_VALUE };
    // Precondition of C01/C02 (induction hypothesis): a lock that is in use is ahead of every id
    // in the tree and at least 1.
    if let Some(c) = cached
    {
        unsafe {
            kani::assume(c >= 1 && c > G_MAX);
        }
    }

    let res = generate_code(&ctx);

    unsafe {
        let no_files = G_FINDER_FAILS || G_NFILES == 0;
        kani::cover!(res.is_ok() && G_W == 3, "three references inserted successfully");
        kani::cover!(G_STOPPED && G_W > 0, "interrupted after tokens reached the disk");
        kani::cover!(G_INSERT_FAILED && G_W > 0, "I/O failure after tokens reached the disk");
        kani::cover!(cached.is_none() && G_MAX == u32::MAX - 2 && G_W == 1, "last usable id of the range handed out");

        assert!(fsm::OPS == 0, "model: drivers perform no file operation outside the passes");
        assert!(LOCK_DIR_OK, "C15: the lock file is written to the directory of the configuration file");
        kani::cover!(!kill_window || G_W > 0, "tokens on disk");
        if kill_window
        {
            if use_cache && G_W > 0
            {
                assert!(LOCK_AT_TOKENS_PRESENT && LOCK_AT_TOKENS_VALUE as u64 >= G_START + G_T,
                    "C02: [kill-window] a kill right after the insert pass leaves ids on disk that the lock file does not cover");
            }
            return;
        }
        // C16: nothing in scope / discovery failure => error, nothing written
        if no_files
        {
            assert!(res.is_err(), "C16: no in-scope files or a discovery failure is an error");
            assert!(G_PASSES == 0 && LOCK_WRITES == 0, "C16: nothing is changed when there is nothing in scope");
        }
        // C16: use_cache false => the lock is never written
        if !use_cache
        {
            assert!(LOCK_WRITES == 0, "C16: with use_cache false the lock file is never written");
        }
        // C01: ids handed out start above every existing id and at 1 or more
        if G_INSERT_RAN && G_T > 0
        {
            assert!(G_START >= 1 && G_START > G_MAX as u64, "C01: new ids are above every existing id and at least 1");
            assert!(G_START + G_T <= u32::MAX as u64, "C01: ids stay within the u32 range");
            if let Some(c) = cached
            {
                assert!(G_START == c as u64, "C01: with a lock the ids start at the locked value");
            }
        }
        // C02: however the run ends, a lock in use dominates every id on disk
        if use_cache && G_W > 0
        {
            assert!(LOCK_PRESENT && LOCK_VALUE as u64 >= G_START + G_T,
                "C02/C18: the lock file is ahead of every id written, however the run ends");
        }
        if use_cache && LOCK_PRESENT && (LOCK_WRITES > 0 || cached.is_some())
        {
            // 4294967295 doubles as "range exhausted": nothing is ever handed out from it (u_insert)
            assert!(LOCK_VALUE > G_MAX || LOCK_VALUE == u32::MAX, "C02: the lock file stays ahead of every existing id");
        }
        // C08: a failed update is never reported as success
        if G_INSERT_FAILED
        {
            assert!(res.is_err(), "C08: an edit run that failed to update a file does not report success");
        }
        if G_EXHAUSTED
        {
            assert!(res.is_err(), "C01: an exhausted id range makes the run fail");
        }
        // C08/C06: success means everything missing was inserted
        if res.is_ok() && !no_files
        {
            assert!(G_W == G_MISSING as u64 || (G_STOPPED && false), "C08: a successful run inserted every missing reference");
        }
        // C18: an interrupted run reports success only if nothing was left to do
        if G_STOPPED
        {
            assert!(res.is_err(), "C18: an interrupted edit run does not report success");
        }
        if stop_before && !no_files
        {
            assert!(res.is_err() && G_W == 0, "C18: a stop request pending at the start prevents any edit");
        }
        // C06: nothing missing => success, no token, lock value unchanged
        if !no_files && G_MISSING == 0 && !G_STOPPED
        {
            assert!(res.is_ok() && G_W == 0, "C06: a complete tree is a fixpoint");
            if lock_present_before && cached.is_some()
            {
                assert!(LOCK_PRESENT && LOCK_VALUE == lock_value_before, "C06: a second run leaves the lock value unchanged");
            }
        }
    }
    std::mem::forget(ctx);
}

#[kani::proof]
#[kani::stub(std::alloc::dealloc, stub_dealloc)]
#[kani::unwind(4)]
#[kani::stub(process_references, stub_process_references)]
#[kani::stub(crate::codegen::finder::CodeFinder::find, stub_finder_find)]
#[kani::stub(crate::config::context::Context::cache_next_reference_id, stub_cache_next_reference_id)]
fn d_check()
{
    log::set_max_level(log::LevelFilter::Off);
    unsafe {
        fsm::reset();
        reset_ghost();
        any_tree();
    }
    let ctx = any_context(true);
    let lock_present_before = unsafe { LOCK_PRESENT };
    let lock_value_before = unsafe { LOCK_VALUE };

    let res = check_references(&ctx);

    unsafe {
        let no_files = G_FINDER_FAILS || G_NFILES == 0;
        kani::cover!(res.is_ok() && !no_files, "check passes");
        kani::cover!(res.is_err() && G_MISSING > 0 && !G_STOPPED, "check fails because of a missing reference");
        kani::cover!(G_STOPPED, "check interrupted");
        // C04: nothing is ever written
        assert!(fsm::OPS == 0 && LOCK_WRITES == 0 && !G_INSERT_RAN, "C04: check mode performs no write of any kind");
        assert!(LOCK_PRESENT == lock_present_before && LOCK_VALUE == lock_value_before, "C04: check mode leaves the lock file alone");
        if no_files
        {
            assert!(res.is_err(), "C16: no in-scope files or a discovery failure is an error");
        }
        else if G_STOPPED
        {
            assert!(res.is_err(), "C18: an interrupted --check never passes");
        }
        else
        {
            assert!(res.is_err() == (G_MISSING > 0), "C05: --check fails exactly when a reference is missing");
        }
    }
    std::mem::forget(ctx);
}


// ---------------------------------------------------------------------------------------------
// U-load : load_code returns exactly what is on disk (or None)
// ---------------------------------------------------------------------------------------------
#[kani::proof]
#[kani::stub(std::alloc::dealloc, stub_dealloc)]
#[kani::unwind(8)]
fn u_load()
{
    log::set_max_level(log::LevelFilter::Off);
    // content: NBYTES symbolic ASCII bytes, optionally preceded by a UTF-8 byte order mark
    let c = any_ascii_content();
    let bom: bool = sym_bool();
    let mut v: Vec<u8> = Vec::with_capacity(NBYTES + 3);
    if bom
    {
        v.push(0xEF);
        v.push(0xBB);
        v.push(0xBF);
    }
    let mut i = 0;
    while i < c.len
    {
        v.push(c.bytes[i]);
        i += 1;
    }
    let total = v.len();
    unsafe {
        fsm::reset();
        fsm::SRC_PRESENT[0] = true;
        fsm::UNREADABLE[0] = sym_bool();
        fsm::READ_CONTENT[0] = Some(String::from_utf8_unchecked(v));
        fsm::FAIL_MASK = sym_u32();
    }
    let r = load_code(&String::from("a"));
    unsafe {
        let readable = !fsm::UNREADABLE[0] && fsm::FAILED_OPS == 0;
        kani::cover!(bom && readable && c.len == NBYTES, "file with a byte order mark");
        assert!(fsm::MUTATIONS == 0, "C04: reading a file changes nothing");
        match r
        {
            None => assert!(!readable, "C17: a readable file is loaded"),
            Some(s) =>
            {
                assert!(readable, "C17: an unreadable file is reported and skipped");
                let b = s.as_bytes();
                assert!(b.len() == total, "C03: the text that is parsed and written back is exactly the file content");
                let off = if bom { 3 } else { 0 };
                if bom
                {
                    assert!(b[0] == 0xEF && b[1] == 0xBB && b[2] == 0xBF, "C03: the text that is parsed and written back is exactly the file content");
                }
                let mut k = 0;
                while k < c.len
                {
                    assert!(b[off + k] == c.bytes[k], "C03: the text that is parsed and written back is exactly the file content");
                    k += 1;
                }
                std::mem::forget(s);
            },
        }
    }
}

// ---------------------------------------------------------------------------------------------
// U-pr : the real process_references loop with an abstract processor
// ---------------------------------------------------------------------------------------------
static mut PR_MAPPED: [usize; 4] = [9; 4];
static mut PR_NMAPPED: usize = 0;
static mut PR_REDUCED: bool = false;
static mut PR_FLAG_AT_MAP: [bool; 4] = [false; 4];

struct AbstractProcessor {}
impl ReferenceProcessor<u32, u8, u32> for AbstractProcessor
{
    fn map(path: &str, _c: &str, _p: &Option<u32>, _e: &[parser::LogRefEntry]) -> Option<u8>
    {
        unsafe {
            if PR_NMAPPED < 4
            {
                PR_MAPPED[PR_NMAPPED] = fsm::path_id(path.as_bytes());
            }
            PR_NMAPPED += 1;
            // working on a file is an operation boundary: a signal may arrive here
            let _ = fsm::begin_op();
        }
        Some(1)
    }
    fn reduce(rs: &[u8]) -> Option<u32>
    {
        unsafe {
            PR_REDUCED = true;
        }
        Some(rs.len() as u32)
    }
}

fn stub_find_references(_l: CodeLanguage, _code: &str, _config: &Config) -> Vec<LogRefEntry>
{
    Vec::new()
}

#[kani::proof]
#[kani::stub(std::alloc::dealloc, stub_dealloc)]
#[kani::unwind(4)]
#[kani::stub(crate::codegen::finder::CodeFinder::find, stub_finder_find)]
#[kani::stub(crate::parser::code_parser::find_references, stub_find_references)]
fn u_pr()
{
    log::set_max_level(log::LevelFilter::Off);
    unsafe {
        fsm::reset();
        reset_ghost();
        G_NFILES = 2;
        G_NAMED_FILES = true;
        G_FINDER_FAILS = false;
        fsm::SRC_PRESENT[0] = true;
        fsm::SRC_PRESENT[1] = true;
        fsm::UNREADABLE[0] = sym_bool();
        fsm::UNREADABLE[1] = sym_bool();
        fsm::SIGNAL_AT = sym_usize();
        PR_NMAPPED = 0;
        PR_REDUCED = false;
    }
    let initial: bool = sym_bool();
    let ctx = Context {
        config: Config {
            config_dir: String::new(),
            source_dir: String::new(),
            use_cache: false,
            rust: RustConfig { structured: false, log_macros: Vec::new(), extensions: Vec::new() },
        },
        cached_next_reference_id: None,
        check_mode: true,
        stop_commanded: Arc::new(AtomicBool::new(initial)),
    };
    unsafe {
        fsm::STOP_FLAG = Some(ctx.stop_commanded.clone());
    }
    let finder = CodeFinder::new(&ctx).unwrap();
    let r = process_references::<AbstractProcessor, u32, u8, u32>(&ctx, None, &finder);
    unsafe {
        let ua = fsm::UNREADABLE[0];
        let ub = fsm::UNREADABLE[1];
        let stopped = initial || fsm::SIGNAL_DELIVERED;
        kani::cover!(!stopped && !ua && !ub, "both files processed");
        kani::cover!(fsm::SIGNAL_DELIVERED && PR_NMAPPED == 1, "stopped between the files");
        kani::cover!(ua && !ub && r.is_some(), "first file unreadable, second processed");
        assert!(fsm::MUTATIONS == 0, "C04: the scan loop itself writes nothing");
        if initial
        {
            assert!(r.is_none() && fsm::READS == 0 && PR_NMAPPED == 0, "C18: a stop request pending at the start means no file is touched");
        }
        if stopped
        {
            assert!(r.is_none() && !PR_REDUCED, "C18: a stop request always ends the pass without a result");
        }
        else
        {
            assert!(r.is_some() && PR_REDUCED, "C05/C17: an uninterrupted pass produces a result even if some file cannot be read");
            let expect = (if ua { 0 } else { 1 }) + (if ub { 0 } else { 1 });
            assert!(PR_NMAPPED == expect, "C17: every readable file is processed exactly once, unreadable ones are skipped");
            assert!(r.unwrap() as usize == expect, "C05: the result is reduced from every processed file");
            if !ua
            {
                assert!(PR_MAPPED[0] == 0, "C05: files are processed in discovery order");
            }
            if !ub
            {
                assert!(PR_MAPPED[expect - 1] == 1, "C05: files are processed in discovery order");
            }
        }
        // files already started are finished: a signal during file k's map does not lose that file
        if fsm::SIGNAL_DELIVERED && !initial
        {
            assert!(PR_NMAPPED <= 2, "C18: no file is processed twice");
        }
    }
    std::mem::forget(finder);
    std::mem::forget(ctx);
}


// ---------------------------------------------------------------------------------------------
// U-insert2 : two files through the real map with the shared counter (no injected failures)
// ---------------------------------------------------------------------------------------------
#[kani::proof]
#[kani::stub(std::alloc::dealloc, stub_dealloc)]
#[kani::unwind(10)]
#[kani::stub(crate::parser::code_parser::LogRefEntry::insertable_reference_string, stub_token)]
#[kani::stub(AsyncTempFile::new, stub_tempfile_new)]
#[kani::stub(std::fs::remove_file, stub_remove_file)]
fn u_insert2()
{
    log::set_max_level(log::LevelFilter::Off);
    let c1 = any_ascii_content();
    let c2 = any_ascii_content();
    let (e1s, e1) = any_entries(c1.len);
    let (e2s, e2) = any_entries(c2.len);
    let start: u32 = sym_u32();
    kani::assume(start >= 1);
    let counter = Arc::new(AtomicU32::new(start));
    let params = Some(counter.clone());
    let n1 = count_needing(&e1s);
    let n2 = count_needing(&e2s);
    unsafe {
        fsm::reset();
        fsm::SRC_PRESENT[0] = true;
        fsm::SRC_PRESENT[1] = true;
        sym_drain();
        NIDS = 0;
        register_expected(&c1.bytes, c1.len, &e1s, 0);
    }
    let r1 = InsertReferencesProcessor::map("a", c1.as_str(), &params, &e1);
    let ids_after_1 = unsafe { NIDS };
    let ok1 = unsafe { fsm::T_OK && (n1 == 0 || fsm::SRC_STATE[0] == fsm::REPLACED) && !fsm::ATOMICITY_BROKEN };
    unsafe {
        // second file: a fresh temp inode and a fresh oracle
        fsm::T_OPEN = false;
        fsm::T_AT = fsm::NONE;
        register_expected(&c2.bytes, c2.len, &e2s, 1);
    }
    let r2 = InsertReferencesProcessor::map("b", c2.as_str(), &params, &e2);
    unsafe {
        assert!(!fsm::MODEL_OVERFLOW && !fsm::FOREIGN_PATH, "model bound respected");
        let r1 = r1.unwrap();
        let r2 = r2.unwrap();
        kani::cover!(n1 == NENT && n2 == NENT && !r1.failure && !r2.failure, "both files fully edited");
        kani::cover!(start as u64 + n1 as u64 == u32::MAX as u64 && n2 > 0, "range exhausted between the files");
        assert!(!fsm::ATOMICITY_BROKEN, "C07: both files are original or complete at every operation boundary");
        // ids across the two files: consecutive, no wrap, no id handed out twice
        let mut k = 0;
        while k < 2 * NENT
        {
            if k < NIDS
            {
                assert!(IDS[k] as u64 == start as u64 + k as u64, "C01: ids are unique and consecutive across files, no wrap");
            }
            k += 1;
        }
        assert!(counter.load(Ordering::Relaxed) as u64 == start as u64 + NIDS as u64, "C01/C02: the shared counter ends just above the last id handed out");
        if !r1.failure
        {
            assert!(ok1 && ids_after_1 == n1 && r1.num_inserted_references == n1, "C03/C05: first file complete, count exact");
        }
        if !r2.failure
        {
            assert!(NIDS - ids_after_1 == n2 && r2.num_inserted_references == n2, "C03/C05: second file complete, count exact");
            if n2 > 0
            {
                assert!(fsm::SRC_STATE[1] == fsm::REPLACED && fsm::T_OK && fsm::T_ACC == fsm::EXPECT_LEN, "C03: second file is original plus tokens");
            }
        }
        // a failure can only be exhaustion (no faults are injected here)
        if r1.failure || r2.failure
        {
            assert!(start as u64 + (n1 + n2) as u64 > u32::MAX as u64, "C01: without I/O faults only an exhausted id range makes the pass fail");
        }
    }
    std::mem::forget(e1);
    std::mem::forget(e2);
    std::mem::forget(counter);
    std::mem::forget(params);
}

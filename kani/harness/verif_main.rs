// Engine K harness for `setup_context` of src/main.rs (property C15: which directory counts as "the
// directory containing the configuration file").  main.rs itself cannot be part of the harness crate
// (clap, simple_logger, fn main): kengine.main_extract_rs() copies the function out verbatim on every
// run.  `std::fs::read_to_string` and `Context::new` are stubs: the harness observes the directory
// the real code derives from the --config argument (real std::path::Path::parent).
#![allow(static_mut_refs)]
#![allow(dead_code)]
#![allow(unused_imports)]

use super::*;

// FLEN: length of the --config argument
include!("verif_bounds.rs");

// symbolic inputs go through these wrappers so that a counterexample can be re-executed with every input pinned
include!("verif_replay.rs");
static mut RP_IDX: usize = 0;
fn rp_next() -> [u8; 8]
{
    unsafe {
        let i = RP_IDX;
        RP_IDX += 1;
        let mut out = [0u8; 8];
        if i < REPLAY_N
        {
            out[0] = REPLAY_FLAT[i * 8];
            out[1] = REPLAY_FLAT[i * 8 + 1];
            out[2] = REPLAY_FLAT[i * 8 + 2];
            out[3] = REPLAY_FLAT[i * 8 + 3];
            out[4] = REPLAY_FLAT[i * 8 + 4];
            out[5] = REPLAY_FLAT[i * 8 + 5];
            out[6] = REPLAY_FLAT[i * 8 + 6];
            out[7] = REPLAY_FLAT[i * 8 + 7];
        }
        out
    }
}
fn sym_u8() -> u8
{
    if REPLAY_ON { rp_next()[0] } else { kani::any() }
}
fn sym_bool() -> bool
{
    if REPLAY_ON { rp_next()[0] != 0 } else { kani::any() }
}
fn sym_u32() -> u32
{
    if REPLAY_ON { let b = rp_next(); u32::from_le_bytes([b[0], b[1], b[2], b[3]]) } else { kani::any() }
}

static mut GOT_DIR: [u8; 8] = [0; 8];
static mut GOT_LEN: usize = 0;
static mut GOT_MODE: bool = false;
static mut NEW_CALLS: usize = 0;
static mut READ_PATH_OK: bool = false;
static mut ARG: [u8; 8] = [0; 8];

fn stub_dealloc(_ptr: *mut u8, _layout: std::alloc::Layout) {}
fn stub_from_utf8(v: &[u8]) -> Result<&str, std::str::Utf8Error>
{
    // the argument is ASCII
    Ok(unsafe { std::str::from_utf8_unchecked(v) })
}
fn stub_read_to_string<P: AsRef<std::path::Path>>(p: P) -> std::io::Result<String>
{
    unsafe {
        let b = p.as_ref().as_os_str().as_encoded_bytes();
        let mut same = b.len() == FLEN;
        let mut i = 0;
        while i < FLEN && i < b.len()
        {
            if b[i] != ARG[i] { same = false; }
            i += 1;
        }
        READ_PATH_OK = same;
    }
    Ok(String::new())
}
fn stub_context_new(_yaml: String, config_dir: &str, check_mode: bool) -> Result<config::Context, String>
{
    unsafe {
        NEW_CALLS += 1;
        let b = config_dir.as_bytes();
        GOT_LEN = b.len();
        let mut i = 0;
        while i < b.len() && i < 8
        {
            GOT_DIR[i] = b[i];
            i += 1;
        }
        GOT_MODE = check_mode;
    }
    Err(String::new())
}

#[kani::proof]
#[kani::unwind(12)]
#[kani::stub(std::alloc::dealloc, stub_dealloc)]
#[kani::stub(core::str::from_utf8, stub_from_utf8)]
#[kani::stub(std::fs::read_to_string, stub_read_to_string)]
#[kani::stub(crate::config::context::Context::new, stub_context_new)]
fn u_setup_context()
{
    log::set_max_level(log::LevelFilter::Off);
    // the --config argument: FLEN - 1 characters from {c, /} (no "//") and a final `b`
    let mut v: Vec<u8> = Vec::new();
    let mut last_slash: Option<usize> = None;
    let mut i = 0;
    while i + 1 < FLEN
    {
        let c: u8 = sym_u8();
        kani::assume(c == b'c' || c == b'/');
        if c == b'/'
        {
            kani::assume(last_slash != Some(i.wrapping_sub(1)) || i == 0);
            last_slash = Some(i);
        }
        unsafe { ARG[i] = c };
        v.push(c);
        i += 1;
    }
    unsafe { ARG[FLEN - 1] = b'b' };
    v.push(b'b');
    let arg = unsafe { String::from_utf8_unchecked(v) };
    let check_mode: bool = sym_bool();
    let r = setup_context(&arg, check_mode);
    unsafe {
        assert!(READ_PATH_OK, "C15: the configuration is read from the path given on the command line");
        assert!(NEW_CALLS == 1 && r.is_err(), "model: the context is built exactly once");
        assert!(GOT_MODE == check_mode, "C04: the mode asked for is the mode the context is built with");
        // the directory containing the file: everything before the last separator ("/" itself for a file in the root,
        // nothing for a bare file name)
        let good = match last_slash
        {
            None => GOT_LEN == 0,
            Some(0) => GOT_LEN == 1 && GOT_DIR[0] == b'/',
            Some(k) =>
            {
                let mut same = GOT_LEN == k;
                let mut i = 0;
                while i < k
                {
                    if GOT_DIR[i] != ARG[i] { same = false; }
                    i += 1;
                }
                same
            },
        };
        assert!(good, "C15: relative paths and the lock file are resolved against the directory that contains the configuration file");
        kani::cover!(matches!(last_slash, Some(k) if k > 0) && ARG[0] != b'/', "relative path with a directory part");
        kani::cover!(ARG[0] == b'/', "absolute path");
        kani::cover!(last_slash.is_none(), "bare file name");
    }
    std::mem::forget(r);
    std::mem::forget(arg);
}

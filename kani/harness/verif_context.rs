// Engine K harnesses for config/context.rs (lock file read/write). Dropped next to the copy of
// /repo/src/config/context.rs as a child module, so the private reader is reachable.
#![allow(static_mut_refs)]
#![allow(dead_code)]
#![allow(unused_imports)]

use super::*;

// DIRLEN (<= 2), SRCLEN (1..=2): lengths of the configuration directory and of source_dir in u_ctx_new
include!("verif_bounds.rs");

// symbolic inputs go through these wrappers so that a counterexample can be re-executed with every input pinned
include!("verif_replay.rs");
static mut RP_IDX: usize = 0;
fn rp_next() -> [u8; 8]
{
    unsafe {
        let i = RP_IDX;
        RP_IDX += 1;
        let mut out = [0u8; 8];
        if i < REPLAY_N
        {
            out[0] = REPLAY_FLAT[i * 8];
            out[1] = REPLAY_FLAT[i * 8 + 1];
            out[2] = REPLAY_FLAT[i * 8 + 2];
            out[3] = REPLAY_FLAT[i * 8 + 3];
            out[4] = REPLAY_FLAT[i * 8 + 4];
            out[5] = REPLAY_FLAT[i * 8 + 5];
            out[6] = REPLAY_FLAT[i * 8 + 6];
            out[7] = REPLAY_FLAT[i * 8 + 7];
        }
        out
    }
}
fn sym_u8() -> u8
{
    if REPLAY_ON { rp_next()[0] } else { kani::any() }
}
fn sym_bool() -> bool
{
    if REPLAY_ON { rp_next()[0] != 0 } else { kani::any() }
}
fn sym_u32() -> u32
{
    if REPLAY_ON { let b = rp_next(); u32::from_le_bytes([b[0], b[1], b[2], b[3]]) } else { kani::any() }
}

static mut EXISTS: bool = false;
static mut READ_OK: bool = false;
static mut PARSE_OK: bool = false;
static mut PARSED: u32 = 0;
static mut STATS: usize = 0;
static mut READS: usize = 0;
static mut PARSES: usize = 0;
static mut MUTATIONS: usize = 0;
static mut WRITTEN: u32 = 0;
static mut SERIALIZED: u32 = 0;
static mut READ_ONLY: bool = false;

fn stub_exists(_p: &std::path::Path) -> bool
{
    unsafe {
        STATS += 1;
        EXISTS
    }
}
fn stub_read_to_string<P: AsRef<std::path::Path>>(p: P) -> std::io::Result<String>
{
    // the path buffer was grown by Path::join; CBMC's realloc model then trips over its deallocation
    std::mem::forget(p);
    unsafe {
        READS += 1;
        if READ_OK { Ok(String::from("x")) } else { Err(std::io::Error::new(std::io::ErrorKind::Other, "e")) }
    }
}
trait FromLock: Sized
{
    fn make(v: u32) -> Self;
}
impl FromLock for Cache
{
    fn make(v: u32) -> Self
    {
        Cache { next_reference_id: v }
    }
}
fn stub_yaml_from_str<'de, T>(_s: &'de str) -> Result<T, serde_yaml::Error>
where
    T: serde::Deserialize<'de> + FromLock,
{
    unsafe {
        PARSES += 1;
        if PARSE_OK
        {
            Ok(T::make(PARSED))
        }
        else
        {
            Err(<serde_yaml::Error as serde::de::Error>::custom(String::new()))
        }
    }
}
fn stub_remove_file<P: AsRef<std::path::Path>>(p: P) -> std::io::Result<()>
{
    std::mem::forget(p);
    unsafe {
        MUTATIONS += 1;
        assert!(!READ_ONLY, "C04/C16: loading the configuration never removes, renames or rewrites the lock file");
    }
    Ok(())
}
fn stub_remove_dir_all<P: AsRef<std::path::Path>>(p: P) -> std::io::Result<()>
{
    std::mem::forget(p);
    unsafe {
        MUTATIONS += 1;
        assert!(!READ_ONLY, "C04/C16: loading the configuration never removes, renames or rewrites the lock file");
    }
    Ok(())
}
fn stub_rename<P: AsRef<std::path::Path>, Q: AsRef<std::path::Path>>(p: P, q: Q) -> std::io::Result<()>
{
    std::mem::forget(p);
    std::mem::forget(q);
    unsafe {
        MUTATIONS += 1;
        assert!(!READ_ONLY, "C04/C16: loading the configuration never removes, renames or rewrites the lock file");
    }
    Ok(())
}
fn stub_write<P: AsRef<std::path::Path>, C: AsRef<[u8]>>(p: P, _c: C) -> std::io::Result<()>
{
    std::mem::forget(p);
    unsafe {
        MUTATIONS += 1;
        WRITTEN = SERIALIZED;
        assert!(!READ_ONLY, "C04/C16: loading the configuration never removes, renames or rewrites the lock file");
    }
    Ok(())
}
trait LockPeek
{
    fn peek(&self) -> u32;
}
impl LockPeek for Cache
{
    fn peek(&self) -> u32
    {
        self.next_reference_id
    }
}
fn stub_yaml_to_string<T>(value: &T) -> Result<String, serde_yaml::Error>
where
    T: ?Sized + serde::Serialize + LockPeek,
{
    unsafe {
        SERIALIZED = value.peek();
    }
    Ok(String::new())
}

fn stub_path_join<P: AsRef<std::path::Path>>(_this: &std::path::Path, _p: P) -> std::path::PathBuf
{
    std::path::PathBuf::new()
}

/// memory is never freed (see verif_generate.rs::stub_dealloc)
unsafe fn stub_dealloc(_ptr: *mut u8, _layout: std::alloc::Layout) {}
/// growing a buffer = a fresh allocation plus a copy; the old block is never freed (CBMC's realloc model raises
/// spurious `free argument`/`rust_dealloc` failures on buffers grown by Path::join)
unsafe fn stub_realloc(ptr: *mut u8, layout: std::alloc::Layout, new_size: usize) -> *mut u8
{
    let new = std::alloc::alloc(std::alloc::Layout::from_size_align_unchecked(new_size, layout.align()));
    let n = if layout.size() < new_size { layout.size() } else { new_size };
    std::ptr::copy_nonoverlapping(ptr, new, n);
    new
}

fn any_config() -> Config
{
    Config {
        config_dir: String::new(),
        source_dir: String::new(),
        use_cache: kani::any(),
        rust: RustConfig {
            structured: kani::any(),
            log_macros: Vec::new(),
            extensions: Vec::new(),
        },
    }
}

/// Reading the lock: what both modes do at start-up (Context::new calls this before main looks at --check).
#[kani::proof]
#[kani::unwind(3)]
#[kani::stub(std::path::Path::exists, stub_exists)]
#[kani::stub(std::fs::read_to_string, stub_read_to_string)]
#[kani::stub(serde_yaml::from_str, stub_yaml_from_str)]
#[kani::stub(std::fs::remove_file, stub_remove_file)]
#[kani::stub(std::fs::remove_dir_all, stub_remove_dir_all)]
#[kani::stub(std::fs::rename, stub_rename)]
#[kani::stub(std::fs::write, stub_write)]
#[kani::stub(std::path::Path::join, stub_path_join)]
#[kani::stub(std::alloc::dealloc, stub_dealloc)]
fn u_ctx_read()
{
    log::set_max_level(log::LevelFilter::Off);
    let config = any_config();
    unsafe {
        READ_ONLY = true;
        EXISTS = kani::any();
        READ_OK = kani::any();
        PARSE_OK = kani::any();
        PARSED = kani::any();
    }
    let r = Context::read_cached_next_reference_id(&config, "d");
    unsafe {
        kani::cover!(r.is_some(), "valid lock read");
        kani::cover!(config.use_cache && EXISTS && READ_OK && !PARSE_OK, "lock present but unparsable");
        assert!(MUTATIONS == 0, "C04/C16: reading the lock file changes nothing, whatever state it is in");
        if !config.use_cache
        {
            assert!(READS == 0 && PARSES == 0 && r.is_none(), "C16: with use_cache false the lock file is not read");
        }
        let usable = config.use_cache && EXISTS && READ_OK && PARSE_OK;
        if usable
        {
            assert!(r == Some(PARSED), "C16: a valid lock provides the next reference id");
        }
        else
        {
            assert!(r.is_none(), "C16: an absent, unreadable or unparsable lock is ignored");
        }
    }
    std::mem::forget(config);
}

/// Writing the lock.
#[kani::proof]
#[kani::unwind(20)]
#[kani::stub(serde_yaml::to_string, stub_yaml_to_string)]
#[kani::stub(std::fs::write, stub_write)]
#[kani::stub(std::fs::remove_file, stub_remove_file)]
#[kani::stub(std::fs::rename, stub_rename)]
#[kani::stub(std::path::Path::join, stub_path_join)]
#[kani::stub(std::path::Path::exists, stub_exists)]
#[kani::stub(std::alloc::dealloc, stub_dealloc)]
fn u_ctx_write()
{
    log::set_max_level(log::LevelFilter::Off);
    // whether a lock file is already there (only matters to code that asks)
    unsafe { EXISTS = kani::any() };
    let ctx = Context {
        config: any_config(),
        cached_next_reference_id: if kani::any() { Some(kani::any()) } else { None },
        check_mode: kani::any(),
        stop_commanded: std::sync::Arc::new(std::sync::atomic::AtomicBool::new(kani::any())),
    };
    let id: u32 = kani::any();
    ctx.cache_next_reference_id(id, "d");
    unsafe {
        kani::cover!(MUTATIONS == 1, "lock written");
        if !ctx.config.use_cache
        {
            assert!(MUTATIONS == 0, "C16: with use_cache false the lock file is neither created nor changed");
        }
        else
        {
            assert!(MUTATIONS == 1 && WRITTEN == id, "C02/C16/C18: the lock file records exactly the id it is given, whatever the stop flag says");
        }
    }
    std::mem::forget(ctx);
}

// ---------------------------------------------------------------------------------------------
// C15: where the source directory and the lock file are looked for (Context::new, real Path::join)
// ---------------------------------------------------------------------------------------------
static mut CFG_OK: bool = true;
static mut CFG_SRC: [u8; 2] = [0; 2];
static mut CFG_SRC_LEN: usize = 0;
static mut CFG_USE_CACHE: bool = true;
static mut DIR: [u8; 2] = [0; 2];
static mut DIR_LEN: usize = 0;
static mut PATH_CHECKS: usize = 0;
static mut PATH_OK: bool = true;
const LOCK_NAME: &[u8] = b"Breadlog.lock";

trait FromYaml: Sized
{
    fn make() -> Option<Self>;
}
impl FromYaml for Cache
{
    fn make() -> Option<Self>
    {
        unsafe { if PARSE_OK { Some(Cache { next_reference_id: PARSED }) } else { None } }
    }
}
impl FromYaml for Config
{
    fn make() -> Option<Self>
    {
        unsafe {
            if !CFG_OK
            {
                return None;
            }
            let mut v: Vec<u8> = Vec::new();
            if CFG_SRC_LEN > 0 { v.push(CFG_SRC[0]); }
            if CFG_SRC_LEN > 1 { v.push(CFG_SRC[1]); }
            Some(Config {
                config_dir: String::new(),
                source_dir: String::from_utf8_unchecked(v),
                use_cache: CFG_USE_CACHE,
                rust: RustConfig { structured: false, log_macros: Vec::new(), extensions: Vec::new() },
            })
        }
    }
}
fn stub_yaml_from_str2<'de, T>(_s: &'de str) -> Result<T, serde_yaml::Error>
where
    T: serde::Deserialize<'de> + FromYaml,
{
    unsafe { PARSES += 1 };
    match T::make()
    {
        Some(v) => Ok(v),
        None => Err(<serde_yaml::Error as serde::de::Error>::custom(String::new())),
    }
}

/// `dir` joined with `name` as the documentation of Path::join has it for relative `name`:
/// a separator is added unless `dir` is empty or already ends with one
unsafe fn path_is_dir_plus(p: &[u8], name: &[u8]) -> bool
{
    let sep = if DIR_LEN > 0 && DIR[DIR_LEN - 1] != b'/' { 1 } else { 0 };
    if p.len() != DIR_LEN + sep + name.len()
    {
        return false;
    }
    let mut ok = true;
    if DIR_LEN > 0 && p[0] != DIR[0] { ok = false; }
    if DIR_LEN > 1 && p[1] != DIR[1] { ok = false; }
    if sep == 1 && p[DIR_LEN] != b'/' { ok = false; }
    let mut i = 0;
    while i < name.len()
    {
        if p[DIR_LEN + sep + i] != name[i]
        {
            ok = false;
        }
        i += 1;
    }
    ok
}
fn stub_exists_at(p: &std::path::Path) -> bool
{
    unsafe {
        STATS += 1;
        PATH_CHECKS += 1;
        if !path_is_dir_plus(p.as_os_str().as_encoded_bytes(), LOCK_NAME) { PATH_OK = false; }
        EXISTS
    }
}
fn stub_read_to_string_at<P: AsRef<std::path::Path>>(p: P) -> std::io::Result<String>
{
    unsafe {
        READS += 1;
        PATH_CHECKS += 1;
        if !path_is_dir_plus(p.as_ref().as_os_str().as_encoded_bytes(), LOCK_NAME) { PATH_OK = false; }
    }
    std::mem::forget(p);
    unsafe { if READ_OK { Ok(String::from("x")) } else { Err(std::io::Error::new(std::io::ErrorKind::Other, "e")) } }
}
fn stub_write_at<P: AsRef<std::path::Path>, C: AsRef<[u8]>>(p: P, _c: C) -> std::io::Result<()>
{
    unsafe {
        MUTATIONS += 1;
        WRITTEN = SERIALIZED;
        PATH_CHECKS += 1;
        if !path_is_dir_plus(p.as_ref().as_os_str().as_encoded_bytes(), LOCK_NAME) { PATH_OK = false; }
    }
    std::mem::forget(p);
    Ok(())
}
fn stub_from_utf8(v: &[u8]) -> Result<&str, std::str::Utf8Error>
{
    // every path in this harness is ASCII
    Ok(unsafe { std::str::from_utf8_unchecked(v) })
}
fn dir_char() -> u8
{
    let c: u8 = sym_u8();
    kani::assume(c == b'c' || c == b'/' || c == b'.');
    c
}
unsafe fn any_dir() -> String
{
    // fixed per run (symbolic lengths multiply the paths through std's path code)
    DIR_LEN = DIRLEN;
    // (a real allocation also for the empty directory: CBMC's model of a dangling empty buffer makes the copies in
    // Path::join read "unallocated memory")
    let mut v: Vec<u8> = Vec::with_capacity(2);
    if DIR_LEN > 0 { DIR[0] = dir_char(); v.push(DIR[0]); }
    if DIR_LEN > 1 { DIR[1] = dir_char(); v.push(DIR[1]); }
    String::from_utf8_unchecked(v)
}

#[kani::proof]
#[kani::unwind(20)]
#[kani::stub(std::path::Path::exists, stub_exists_at)]
#[kani::stub(std::fs::read_to_string, stub_read_to_string_at)]
#[kani::stub(serde_yaml::from_str, stub_yaml_from_str2)]
#[kani::stub(core::str::from_utf8, stub_from_utf8)]
#[kani::stub(std::alloc::dealloc, stub_dealloc)]
#[kani::stub(std::alloc::realloc, stub_realloc)]
fn u_ctx_new()
{
    log::set_max_level(log::LevelFilter::Off);
    let dir = unsafe { any_dir() };
    unsafe {
        // the configuration parses (the error branch formats a serde_yaml error: `to_string()` is out of CBMC's reach)
        CFG_OK = true;
        CFG_SRC_LEN = SRCLEN;
        CFG_SRC[0] = sym_u8();
        kani::assume(CFG_SRC[0] == b's' || CFG_SRC[0] == b'/' || CFG_SRC[0] == b'.');
        CFG_SRC[1] = sym_u8();
        kani::assume(CFG_SRC[1] == b's' || CFG_SRC[1] == b'/' || CFG_SRC[1] == b'.');
        CFG_USE_CACHE = sym_bool();
        EXISTS = sym_bool();
        // reading and parsing succeed: their failures are u_ctx_read's subject, and dropping an io::Error or a
        // serde_yaml::Error makes CBMC's allocator model raise spurious failures that would mask the assertions below
        READ_OK = true;
        PARSE_OK = true;
        PARSED = sym_u32();
    }
    let check_mode: bool = sym_bool();
    let r = Context::new(String::new(), dir.as_str(), check_mode);
    unsafe {
        assert!(PATH_OK, "C15: the lock file is looked for next to the configuration file (<config dir>/Breadlog.lock)");
        if CFG_USE_CACHE && CFG_OK
        {
            assert!(PATH_CHECKS >= 1, "C15: the lock file is looked for next to the configuration file (<config dir>/Breadlog.lock)");
        }
        match &r
        {
            Err(_) => assert!(!CFG_OK, "C16: a configuration that parses is accepted"),
            Ok(ctx) =>
            {
                assert!(CFG_OK, "C16: a configuration that does not parse is rejected");
                let got = ctx.config.source_dir.as_bytes();
                let src_abs = CFG_SRC[0] == b'/';
                let good = if src_abs
                {
                    got.len() == CFG_SRC_LEN && got[0] == CFG_SRC[0] && (CFG_SRC_LEN < 2 || got[1] == CFG_SRC[1])
                }
                else if CFG_SRC_LEN == 1
                {
                    path_is_dir_plus(got, &[CFG_SRC[0]])
                }
                else
                {
                    path_is_dir_plus(got, &[CFG_SRC[0], CFG_SRC[1]])
                };
                assert!(good, "C15: a relative source directory is resolved against the directory of the configuration file, an absolute one is kept");
                let cd = ctx.config.config_dir.as_bytes();
                assert!(cd.len() == DIR_LEN && (DIR_LEN < 1 || cd[0] == DIR[0]) && (DIR_LEN < 2 || cd[1] == DIR[1]),
                        "C15: the context records the directory of the configuration file");
                assert!(ctx.check_mode == check_mode, "C04: the mode asked for is the mode recorded");
                kani::cover!(!src_abs, "relative source dir joined to the config dir");
                kani::cover!(src_abs, "absolute source dir");
            },
        }
        kani::cover!(PATH_CHECKS >= 2, "lock looked up and read");
    }
    std::mem::forget(r);
    std::mem::forget(dir);
}

/// the lock is written next to the configuration file (real Path::join)
#[kani::proof]
#[kani::unwind(20)]
#[kani::stub(serde_yaml::to_string, stub_yaml_to_string)]
#[kani::stub(std::fs::write, stub_write_at)]
#[kani::stub(std::alloc::dealloc, stub_dealloc)]
#[kani::stub(std::alloc::realloc, stub_realloc)]
fn u_ctx_write_path()
{
    log::set_max_level(log::LevelFilter::Off);
    let dir = unsafe { any_dir() };
    let cfg = Config {
        config_dir: String::new(),
        source_dir: String::new(),
        use_cache: true,
        rust: RustConfig { structured: sym_bool(), log_macros: Vec::new(), extensions: Vec::new() },
    };
    let ctx = Context {
        config: cfg,
        cached_next_reference_id: None,
        check_mode: false,
        stop_commanded: std::sync::Arc::new(std::sync::atomic::AtomicBool::new(sym_bool())),
    };
    let id: u32 = sym_u32();
    ctx.cache_next_reference_id(id, dir.as_str());
    unsafe {
        assert!(MUTATIONS == 1 && PATH_OK, "C15: the lock file is written next to the configuration file (<config dir>/Breadlog.lock)");
        kani::cover!(MUTATIONS == 1 && PATH_OK, "lock written next to the configuration file");
    }
    std::mem::forget(ctx);
    std::mem::forget(dir);
}

// Engine K harnesses for config/context.rs (lock file read/write). Dropped next to the copy of
// /repo/src/config/context.rs as a child module, so the private reader is reachable.
#![allow(static_mut_refs)]
#![allow(dead_code)]
#![allow(unused_imports)]

use super::*;

static mut EXISTS: bool = false;
static mut READ_OK: bool = false;
static mut PARSE_OK: bool = false;
static mut PARSED: u32 = 0;
static mut STATS: usize = 0;
static mut READS: usize = 0;
static mut PARSES: usize = 0;
static mut MUTATIONS: usize = 0;
static mut WRITTEN: u32 = 0;
static mut SERIALIZED: u32 = 0;
static mut READ_ONLY: bool = false;

fn stub_exists(_p: &std::path::Path) -> bool
{
    unsafe {
        STATS += 1;
        EXISTS
    }
}
fn stub_read_to_string<P: AsRef<std::path::Path>>(p: P) -> std::io::Result<String>
{
    // the path buffer was grown by Path::join; CBMC's realloc model then trips over its deallocation
    std::mem::forget(p);
    unsafe {
        READS += 1;
        if READ_OK { Ok(String::from("x")) } else { Err(std::io::Error::new(std::io::ErrorKind::Other, "e")) }
    }
}
trait FromLock: Sized
{
    fn make(v: u32) -> Self;
}
impl FromLock for Cache
{
    fn make(v: u32) -> Self
    {
        Cache { next_reference_id: v }
    }
}
fn stub_yaml_from_str<'de, T>(_s: &'de str) -> Result<T, serde_yaml::Error>
where
    T: serde::Deserialize<'de> + FromLock,
{
    unsafe {
        PARSES += 1;
        if PARSE_OK
        {
            Ok(T::make(PARSED))
        }
        else
        {
            Err(<serde_yaml::Error as serde::de::Error>::custom(String::new()))
        }
    }
}
fn stub_remove_file<P: AsRef<std::path::Path>>(p: P) -> std::io::Result<()>
{
    std::mem::forget(p);
    unsafe {
        MUTATIONS += 1;
        assert!(!READ_ONLY, "C04/C16: loading the configuration never removes, renames or rewrites the lock file");
    }
    Ok(())
}
fn stub_remove_dir_all<P: AsRef<std::path::Path>>(p: P) -> std::io::Result<()>
{
    std::mem::forget(p);
    unsafe {
        MUTATIONS += 1;
        assert!(!READ_ONLY, "C04/C16: loading the configuration never removes, renames or rewrites the lock file");
    }
    Ok(())
}
fn stub_rename<P: AsRef<std::path::Path>, Q: AsRef<std::path::Path>>(p: P, q: Q) -> std::io::Result<()>
{
    std::mem::forget(p);
    std::mem::forget(q);
    unsafe {
        MUTATIONS += 1;
        assert!(!READ_ONLY, "C04/C16: loading the configuration never removes, renames or rewrites the lock file");
    }
    Ok(())
}
fn stub_write<P: AsRef<std::path::Path>, C: AsRef<[u8]>>(p: P, _c: C) -> std::io::Result<()>
{
    std::mem::forget(p);
    unsafe {
        MUTATIONS += 1;
        WRITTEN = SERIALIZED;
        assert!(!READ_ONLY, "C04/C16: loading the configuration never removes, renames or rewrites the lock file");
    }
    Ok(())
}
trait LockPeek
{
    fn peek(&self) -> u32;
}
impl LockPeek for Cache
{
    fn peek(&self) -> u32
    {
        self.next_reference_id
    }
}
fn stub_yaml_to_string<T>(value: &T) -> Result<String, serde_yaml::Error>
where
    T: ?Sized + serde::Serialize + LockPeek,
{
    unsafe {
        SERIALIZED = value.peek();
    }
    Ok(String::new())
}

fn stub_path_join<P: AsRef<std::path::Path>>(_this: &std::path::Path, _p: P) -> std::path::PathBuf
{
    std::path::PathBuf::new()
}

/// memory is never freed (see verif_generate.rs::stub_dealloc)
unsafe fn stub_dealloc(_ptr: *mut u8, _layout: std::alloc::Layout) {}

fn any_config() -> Config
{
    Config {
        config_dir: String::new(),
        source_dir: String::new(),
        use_cache: kani::any(),
        rust: RustConfig {
            structured: kani::any(),
            log_macros: Vec::new(),
            extensions: Vec::new(),
        },
    }
}

/// Reading the lock: what both modes do at start-up (Context::new calls this before main looks at --check).
#[kani::proof]
#[kani::unwind(3)]
#[kani::stub(std::path::Path::exists, stub_exists)]
#[kani::stub(std::fs::read_to_string, stub_read_to_string)]
#[kani::stub(serde_yaml::from_str, stub_yaml_from_str)]
#[kani::stub(std::fs::remove_file, stub_remove_file)]
#[kani::stub(std::fs::remove_dir_all, stub_remove_dir_all)]
#[kani::stub(std::fs::rename, stub_rename)]
#[kani::stub(std::fs::write, stub_write)]
#[kani::stub(std::path::Path::join, stub_path_join)]
#[kani::stub(std::alloc::dealloc, stub_dealloc)]
fn u_ctx_read()
{
    log::set_max_level(log::LevelFilter::Off);
    let config = any_config();
    unsafe {
        READ_ONLY = true;
        EXISTS = kani::any();
        READ_OK = kani::any();
        PARSE_OK = kani::any();
        PARSED = kani::any();
    }
    let r = Context::read_cached_next_reference_id(&config, "d");
    unsafe {
        kani::cover!(r.is_some(), "valid lock read");
        kani::cover!(config.use_cache && EXISTS && READ_OK && !PARSE_OK, "lock present but unparsable");
        assert!(MUTATIONS == 0, "C04/C16: reading the lock file changes nothing, whatever state it is in");
        if !config.use_cache
        {
            assert!(READS == 0 && PARSES == 0 && r.is_none(), "C16: with use_cache false the lock file is not read");
        }
        let usable = config.use_cache && EXISTS && READ_OK && PARSE_OK;
        if usable
        {
            assert!(r == Some(PARSED), "C16: a valid lock provides the next reference id");
        }
        else
        {
            assert!(r.is_none(), "C16: an absent, unreadable or unparsable lock is ignored");
        }
    }
    std::mem::forget(config);
}

/// Writing the lock.
#[kani::proof]
#[kani::unwind(20)]
#[kani::stub(serde_yaml::to_string, stub_yaml_to_string)]
#[kani::stub(std::fs::write, stub_write)]
#[kani::stub(std::fs::remove_file, stub_remove_file)]
#[kani::stub(std::fs::rename, stub_rename)]
#[kani::stub(std::path::Path::join, stub_path_join)]
#[kani::stub(std::alloc::dealloc, stub_dealloc)]
fn u_ctx_write()
{
    log::set_max_level(log::LevelFilter::Off);
    let ctx = Context {
        config: any_config(),
        cached_next_reference_id: if kani::any() { Some(kani::any()) } else { None },
        check_mode: kani::any(),
        stop_commanded: std::sync::Arc::new(std::sync::atomic::AtomicBool::new(kani::any())),
    };
    let id: u32 = kani::any();
    ctx.cache_next_reference_id(id, "d");
    unsafe {
        kani::cover!(MUTATIONS == 1, "lock written");
        if !ctx.config.use_cache
        {
            assert!(MUTATIONS == 0, "C16: with use_cache false the lock file is neither created nor changed");
        }
        else
        {
            assert!(MUTATIONS == 1 && WRITTEN == id, "C02/C16/C18: the lock file records exactly the id it is given, whatever the stop flag says");
        }
    }
    std::mem::forget(ctx);
}

//! Verification shim for `async-std` (Engine K, see /verif/DESIGN.md §3.2).
//!
//! It offers the names breadlog's `codegen/generate.rs` uses — `task::{spawn, block_on}`,
//! `fs::{File, read_to_string, rename, ..}`, `io::WriteExt::{write_all, flush}` — as *synchronous*
//! functions over an in-memory, nondeterministic file-system model. generate.rs is desugared
//! mechanically (`async fn`→`fn`, `.await`→nothing, `async {}`→closure) before it is compiled
//! against this crate, so the code CBMC executes is the real control and data flow of breadlog.
//!
//! Model (kept deliberately free of symbolically indexed array *writes*, which is what makes CBMC
//! formulas explode):
//!  * paths are 1-byte strings `"a".."h"` → path ids 0..8. Ids 0..NSRC are source files, `TMP`
//!    (`"h"`) is the only other path breadlog may create;
//!  * a source path is in one of three states: still its original inode (`ORIG`), replaced by the
//!    temp file's inode through `rename` (`REPLACED`), or anything else (truncated, removed,
//!    written in place: `CLOBBERED`);
//!  * the temp inode is a byte *stream*: `T_ACC` bytes accepted so far, of which `T_DISK ≤ T_ACC`
//!    have reached the disk. This over-approximates async-std 1.13's write cache (`fs/file.rs`:
//!    bytes are copied into a cache that is only drained when it is full, on `flush`, or in `Drop`):
//!    after every `write_all` an arbitrary amount of the cached bytes may reach the disk; `flush`
//!    and `Drop` drain everything. The stream content itself is not stored: while bytes are
//!    accepted they are compared with the content the harness registered as the complete new file
//!    for the current target (`EXPECT`), and `T_OK` records whether the stream is still a prefix of it;
//!  * every call is an operation boundary with an index; bit k of `FAIL_MASK` makes operation k
//!    fail; when the counter reaches `SIGNAL_AT` the registered stop flag is set (a signal arriving
//!    at that boundary);
//!  * `ATOMICITY_BROKEN` is raised as soon as some source path's *on-disk* content is neither its
//!    original nor the complete expected content — i.e. exactly what a crash at that operation
//!    boundary would leave behind.
#![allow(static_mut_refs)]
#![allow(clippy::missing_safety_doc)]

pub mod model
{
    use std::sync::atomic::{AtomicBool, Ordering};
    use std::sync::Arc;

    pub const CAP: usize = 16;
    pub const NPATHS: usize = 8;
    pub const NSRC: usize = 3;
    pub const TMP: usize = 7;
    pub const NONE: usize = usize::MAX;

    pub const ORIG: u8 = 0;
    pub const REPLACED: u8 = 1;
    pub const CLOBBERED: u8 = 2;

    // ---- source files
    pub static mut SRC_PRESENT: [bool; NSRC] = [false; NSRC];
    pub static mut SRC_STATE: [u8; NSRC] = [ORIG; NSRC];
    pub static mut UNREADABLE: [bool; NSRC] = [false; NSRC];
    /// What `read_to_string` returns for an original source file (harness-provided, ASCII).
    pub static mut READ_CONTENT: [Option<String>; NSRC] = [None, None, None];

    // ---- the harness' oracle for the source file currently being rewritten
    pub static mut TARGET: usize = NONE;
    pub static mut EXPECT: [u8; CAP] = [0; CAP];
    pub static mut EXPECT_LEN: usize = 0;

    // ---- temp inode
    pub static mut T_LINKED: bool = false; // the temp *path* exists
    pub static mut T_OPEN: bool = false; // the temp inode exists (path or renamed)
    pub static mut T_ACC: usize = 0;
    pub static mut T_DISK: usize = 0;
    pub static mut T_OK: bool = true;
    /// a failed drain left part of the write cache on disk while async-std kept the whole cache
    /// (`last_write_err` is handed out once, the cache is not cleared, the mode stays `Writing`):
    /// the next drain sends the whole cache again, after the fragment that is already there
    pub static mut T_DIRTY: bool = false;
    pub static mut T_AT: usize = NONE; // source id the temp inode was renamed to
    pub static mut TEMPS_CREATED: usize = 0;

    // ---- counters
    pub static mut OPS: usize = 0;
    pub static mut MUTATIONS: usize = 0;
    pub static mut READS: usize = 0;
    pub static mut RENAMES_OK: usize = 0;
    pub static mut RENAMES_FAILED: usize = 0;
    pub static mut FAILED_OPS: usize = 0;
    pub static mut SILENT_FAILURES: usize = 0;

    // ---- fault / signal injection
    pub static mut ERR_KIND: u8 = 0;
    pub static mut FAIL_MASK: u32 = 0;
    pub static mut DRAIN: [usize; 32] = [0; 32];
    pub static mut SIGNAL_AT: usize = NONE;
    pub static mut STOP_FLAG: Option<Arc<AtomicBool>> = None;
    pub static mut SIGNAL_DELIVERED: bool = false;

    // ---- verdict flags
    pub static mut ATOMICITY_BROKEN: bool = false;
    pub static mut MODEL_OVERFLOW: bool = false;
    pub static mut FOREIGN_PATH: bool = false;

    pub unsafe fn reset()
    {
        SRC_PRESENT = [false; NSRC];
        SRC_STATE = [ORIG; NSRC];
        UNREADABLE = [false; NSRC];
        TARGET = NONE;
        EXPECT_LEN = 0;
        T_LINKED = false;
        T_OPEN = false;
        T_ACC = 0;
        T_DISK = 0;
        T_OK = true;
        T_DIRTY = false;
        T_AT = NONE;
        TEMPS_CREATED = 0;
        OPS = 0;
        MUTATIONS = 0;
        READS = 0;
        RENAMES_OK = 0;
        RENAMES_FAILED = 0;
        FAILED_OPS = 0;
        SILENT_FAILURES = 0;
        FAIL_MASK = 0;
        SIGNAL_AT = NONE;
        SIGNAL_DELIVERED = false;
        ATOMICITY_BROKEN = false;
        MODEL_OVERFLOW = false;
        FOREIGN_PATH = false;
    }

    /// Path id from the raw bytes of a path (no UTF-8 validation: `Path::to_str` drags the
    /// word-at-a-time validator into every operation, which CBMC cannot bound).
    pub fn path_id(b: &[u8]) -> usize
    {
        if b.len() != 1 || b[0] < b'a' || (b[0] - b'a') as usize >= NPATHS
        {
            unsafe {
                FOREIGN_PATH = true;
            }
            return NONE;
        }
        let id = (b[0] - b'a') as usize;
        if id >= NSRC && id != TMP
        {
            unsafe {
                FOREIGN_PATH = true;
            }
            return NONE;
        }
        id
    }

    /// Start of every model operation = operation boundary = possible signal arrival.
    /// Returns (operation index, whether this operation is to fail).
    pub unsafe fn begin_op() -> (usize, bool)
    {
        let k = OPS;
        OPS += 1;
        if k == SIGNAL_AT
        {
            if let Some(flag) = &STOP_FLAG
            {
                flag.store(true, Ordering::Relaxed);
            }
            SIGNAL_DELIVERED = true;
        }
        if k >= 32
        {
            MODEL_OVERFLOW = true;
            return (k, false);
        }
        let fail = (FAIL_MASK >> k) & 1 == 1;
        if fail
        {
            FAILED_OPS += 1;
        }
        (k, fail)
    }

    /// Is the on-disk content of the temp inode the complete expected content?
    pub unsafe fn temp_complete() -> bool
    {
        T_OK && T_DISK == T_ACC && T_ACC == EXPECT_LEN
    }

    /// Re-evaluate the crash-consistency verdict after the temp inode changed on disk.
    pub unsafe fn after_temp_change()
    {
        if T_AT != NONE && !temp_complete()
        {
            ATOMICITY_BROKEN = true;
        }
    }

    pub unsafe fn drain_upto(upto: usize)
    {
        let mut d = upto;
        if d > T_ACC
        {
            d = T_ACC;
        }
        if d > T_DISK
        {
            if T_DIRTY
            {
                // the cache is re-sent from its start: the file now holds a duplicated fragment
                T_OK = false;
            }
            T_DISK = d;
            after_temp_change();
        }
    }

    /// The drain of a failing operation: some of the cache may have reached the disk before the error.
    pub unsafe fn failed_drain(upto: usize)
    {
        let before = T_DISK;
        drain_upto(upto);
        if T_DISK > before
        {
            T_DIRTY = true;
        }
    }

    pub unsafe fn clobber(id: usize)
    {
        if id < NSRC
        {
            SRC_STATE[id] = CLOBBERED;
            ATOMICITY_BROKEN = true;
        }
    }
}

pub mod task
{
    /// After desugaring, `task::spawn(async move {..}).await` is `task::spawn(move || {..})`.
    pub fn spawn<T, F: FnOnce() -> T>(f: F) -> T
    {
        f()
    }
    /// After desugaring, `task::block_on(async {..})` is `task::block_on(|| {..})`.
    pub fn block_on<T, F: FnOnce() -> T>(f: F) -> T
    {
        f()
    }
}

pub mod io
{
    use std::fmt;

    /// Default (fast) variant: an opaque error type. breadlog only formats errors into log lines or asks
    /// for their kind, which is the arbitrary value the harness put into `model::ERR_KIND`.
    #[cfg(not(feature = "std-error"))]
    pub struct Error;
    #[cfg(not(feature = "std-error"))]
    impl Error
    {
        pub fn kind(&self) -> std::io::ErrorKind
        {
            injected_kind()
        }
        pub fn raw_os_error(&self) -> Option<i32>
        {
            None
        }
    }
    #[cfg(not(feature = "std-error"))]
    impl fmt::Display for Error
    {
        fn fmt(&self, f: &mut fmt::Formatter<'_>) -> fmt::Result
        {
            f.write_str("injected I/O error")
        }
    }
    #[cfg(not(feature = "std-error"))]
    impl fmt::Debug for Error
    {
        fn fmt(&self, f: &mut fmt::Formatter<'_>) -> fmt::Result
        {
            f.write_str("injected I/O error")
        }
    }
    #[cfg(not(feature = "std-error"))]
    pub fn injected() -> Error
    {
        Error
    }

    /// Compatibility variant (feature `std-error`, about five times slower under CBMC because of the
    /// bit-packed representation): as in the real async-std the error type IS `std::io::Error`. The
    /// runner switches to it when the sources do not compile against the opaque type.
    #[cfg(feature = "std-error")]
    pub use std::io::Error;
    #[cfg(feature = "std-error")]
    pub fn injected() -> Error
    {
        Error::from(injected_kind())
    }

    pub fn injected_kind() -> std::io::ErrorKind
    {
        match unsafe { super::model::ERR_KIND } % 6
        {
            0 => std::io::ErrorKind::Other,
            1 => std::io::ErrorKind::CrossesDevices,
            2 => std::io::ErrorKind::NotFound,
            3 => std::io::ErrorKind::PermissionDenied,
            4 => std::io::ErrorKind::StorageFull,
            _ => std::io::ErrorKind::Interrupted,
        }
    }
    pub type Result<T> = std::result::Result<T, Error>;

    pub trait WriteExt
    {
        fn write_all(&mut self, buf: &[u8]) -> Result<()>;
        fn flush(&mut self) -> Result<()>;
    }
    pub mod prelude
    {
        pub use super::WriteExt;
    }
}

pub mod fs
{
    use super::io;
    use super::model::*;
    use std::path::Path;

    /// A handle on the temp inode (`is_temp`) or on a source file opened for writing in place.
    pub struct File
    {
        pub is_temp: bool,
        pub src: usize,
    }

    fn to_str<P: AsRef<Path>>(p: &P) -> &[u8]
    {
        p.as_ref().as_os_str().as_encoded_bytes()
    }

    impl File
    {
        /// Create or truncate.
        pub fn create<P: AsRef<Path>>(path: P) -> io::Result<File>
        {
            unsafe {
                let (_k, fail) = begin_op();
                MUTATIONS += 1;
                if fail
                {
                    return Err(io::injected());
                }
                let id = path_id(to_str(&path));
                if id == NONE
                {
                    return Err(io::injected());
                }
                if id < NSRC
                {
                    // truncating a source file in place
                    clobber(id);
                    SRC_PRESENT[id] = true;
                    return Ok(File {
                        is_temp: false,
                        src: id,
                    });
                }
                if T_OPEN
                {
                    // a second temp inode while the first is still around: outside the model
                    MODEL_OVERFLOW = true;
                }
                T_LINKED = true;
                T_OPEN = true;
                T_ACC = 0;
                T_DISK = 0;
                T_OK = true;
                T_DIRTY = false;
                T_AT = NONE;
                TEMPS_CREATED += 1;
                Ok(File {
                    is_temp: true,
                    src: NONE,
                })
            }
        }

        pub fn sync_all(&self) -> io::Result<()>
        {
            unsafe {
                let (k, fail) = begin_op();
                if !self.is_temp
                {
                    return if fail { Err(io::injected()) } else { Ok(()) };
                }
                if fail
                {
                    failed_drain(DRAIN[k & 31]);
                    return Err(io::injected());
                }
                drain_upto(usize::MAX);
                Ok(())
            }
        }

        pub fn sync_data(&self) -> io::Result<()>
        {
            self.sync_all()
        }
    }

    impl io::WriteExt for File
    {
        fn write_all(&mut self, buf: &[u8]) -> io::Result<()>
        {
            unsafe {
                let (k, fail) = begin_op();
                MUTATIONS += 1;
                if !self.is_temp
                {
                    clobber(self.src);
                    return if fail { Err(io::injected()) } else { Ok(()) };
                }
                if fail
                {
                    // a failing write may still have pushed out part of what was cached
                    failed_drain(DRAIN[k & 31]);
                    return Err(io::injected());
                }
                let start = T_ACC;
                let n = buf.len();
                if start + n > CAP
                {
                    MODEL_OVERFLOW = true;
                    return Err(io::injected());
                }
                let mut i = 0;
                while i < n
                {
                    if start + i >= EXPECT_LEN || EXPECT[start + i] != buf[i]
                    {
                        T_OK = false;
                    }
                    i += 1;
                }
                T_ACC = start + n;
                if n > 0
                {
                    after_temp_change();
                }
                drain_upto(DRAIN[k & 31]);
                Ok(())
            }
        }

        fn flush(&mut self) -> io::Result<()>
        {
            unsafe {
                let (k, fail) = begin_op();
                if !self.is_temp
                {
                    return if fail { Err(io::injected()) } else { Ok(()) };
                }
                if fail
                {
                    failed_drain(DRAIN[k & 31]);
                    return Err(io::injected());
                }
                drain_upto(usize::MAX);
                Ok(())
            }
        }
    }

    impl Drop for File
    {
        /// async-std flushes the write cache when a `File` is dropped and discards the result.
        fn drop(&mut self)
        {
            unsafe {
                if !self.is_temp || T_DISK == T_ACC
                {
                    return;
                }
                let (k, fail) = begin_op();
                if fail
                {
                    SILENT_FAILURES += 1;
                    failed_drain(DRAIN[k & 31]);
                    return;
                }
                drain_upto(usize::MAX);
            }
        }
    }

    pub fn rename<P: AsRef<Path>, Q: AsRef<Path>>(from: P, to: Q) -> io::Result<()>
    {
        unsafe {
            let (_k, fail) = begin_op();
            MUTATIONS += 1;
            if fail
            {
                RENAMES_FAILED += 1;
                return Err(io::injected());
            }
            let f = path_id(to_str(&from));
            let t = path_id(to_str(&to));
            if f == NONE || t == NONE
            {
                return Err(io::injected());
            }
            if f != TMP
            {
                // moving a source file away
                clobber(f);
                if t < NSRC
                {
                    clobber(t);
                }
                return Ok(());
            }
            if !T_LINKED
            {
                return Err(io::injected());
            }
            T_LINKED = false;
            if t < NSRC
            {
                SRC_STATE[t] = REPLACED;
                SRC_PRESENT[t] = true;
                T_AT = t;
                if t != TARGET
                {
                    ATOMICITY_BROKEN = true;
                }
                after_temp_change();
            }
            RENAMES_OK += 1;
            Ok(())
        }
    }

    pub fn remove_file<P: AsRef<Path>>(path: P) -> io::Result<()>
    {
        unsafe {
            let (_k, fail) = begin_op();
            MUTATIONS += 1;
            if fail
            {
                return Err(io::injected());
            }
            let id = path_id(to_str(&path));
            if id == NONE
            {
                return Err(io::injected());
            }
            if id < NSRC
            {
                clobber(id);
                SRC_PRESENT[id] = false;
                return Ok(());
            }
            if !T_LINKED
            {
                return Err(io::injected());
            }
            T_LINKED = false;
            if T_AT == NONE
            {
                T_OPEN = false;
            }
            Ok(())
        }
    }

    /// Copying onto an existing path rewrites that file in place (open with O_TRUNC, then write).
    pub fn copy<P: AsRef<Path>, Q: AsRef<Path>>(_from: P, to: Q) -> io::Result<u64>
    {
        unsafe {
            let (_k, fail) = begin_op();
            MUTATIONS += 1;
            let t = path_id(to_str(&to));
            if t != NONE && t < NSRC
            {
                clobber(t);
            }
            if fail
            {
                return Err(io::injected());
            }
            Ok(0)
        }
    }

    pub fn write<P: AsRef<Path>, C: AsRef<[u8]>>(path: P, contents: C) -> io::Result<()>
    {
        use super::io::WriteExt;
        let mut f = File::create(path)?;
        f.write_all(contents.as_ref())?;
        f.flush()
    }

    /// Only original source files can be read back (enough for breadlog: it reads each file before
    /// it rewrites it); a path flagged `UNREADABLE` stands for a file that is not valid UTF-8 or
    /// cannot be opened.
    pub fn read_to_string<P: AsRef<Path>>(path: P) -> io::Result<String>
    {
        unsafe {
            let (_k, fail) = begin_op();
            READS += 1;
            if fail
            {
                return Err(io::injected());
            }
            let id = path_id(to_str(&path));
            if id == NONE || id >= NSRC || !SRC_PRESENT[id] || UNREADABLE[id]
            {
                return Err(io::injected());
            }
            match &READ_CONTENT[id]
            {
                Some(s) => Ok(s.clone()),
                None => Ok(String::new()),
            }
        }
    }
}

pub mod prelude
{
    pub use super::io::WriteExt;
}

//! Model of the `walkdir` crate for engine K (harness u_find).  The directory tree is not read from
//! a file system (that is kernel behaviour behind FFI): the walk yields the root followed by the
//! entries the harness put into `MODEL` - arbitrary names, kinds and depths.  What is modelled is
//! walkdir's documented contract: entries come in a fixed order, the root is entry 0 at depth 0, an
//! unreadable entry is an `Err`, `file_type()` reports a symbolic link as a link unless
//! `follow_links(true)` was requested, `min_depth`/`max_depth` drop entries outside the range.
//! Anything else of the API is absent on purpose: a source that starts using it stops compiling
//! here and the check reports "inconclusive" instead of guessing.
#![allow(static_mut_refs)]
use std::ffi::OsString;
use std::os::unix::ffi::OsStringExt;
use std::path::{Path, PathBuf};

pub const MAX_ENTRIES: usize = 4;
pub const MAX_REL: usize = 8;

pub const KIND_FILE: u8 = 0;
pub const KIND_DIR: u8 = 1;
pub const KIND_LINK_TO_FILE: u8 = 2;
pub const KIND_LINK_TO_DIR: u8 = 3;
pub const KIND_ERR: u8 = 4;
pub const KIND_OTHER: u8 = 5; // fifo, socket, device

#[derive(Clone, Copy)]
pub struct ModelEntry
{
    pub kind: u8,
    pub depth: u8,
    /// path below the root, `len` bytes
    pub rel: [u8; MAX_REL],
    pub len: usize,
}

pub struct Model
{
    pub n: usize,
    pub entries: [ModelEntry; MAX_ENTRIES],
    /// observations for the harness
    pub walks: usize,
    pub yielded: usize,
    pub follow_links: bool,
    pub root_matches: bool,
}

pub static mut MODEL: Model = Model {
    n: 0,
    entries: [ModelEntry { kind: 0, depth: 1, rel: [0; MAX_REL], len: 0 }; MAX_ENTRIES],
    walks: 0,
    yielded: 0,
    follow_links: false,
    root_matches: false,
};
/// the root the harness expects the walk to start from
pub static mut EXPECT_ROOT: &[u8] = b"";

pub struct WalkDir
{
    root: PathBuf,
    follow_links: bool,
    min_depth: usize,
    max_depth: usize,
}

impl WalkDir
{
    pub fn new<P: AsRef<Path>>(root: P) -> Self
    {
        WalkDir { root: root.as_ref().to_path_buf(), follow_links: false, min_depth: 0, max_depth: usize::MAX }
    }
    pub fn follow_links(mut self, yes: bool) -> Self
    {
        self.follow_links = yes;
        self
    }
    pub fn follow_root_links(self, _yes: bool) -> Self
    {
        self
    }
    pub fn min_depth(mut self, d: usize) -> Self
    {
        self.min_depth = d;
        self
    }
    pub fn max_depth(mut self, d: usize) -> Self
    {
        self.max_depth = d;
        self
    }
    pub fn same_file_system(self, _yes: bool) -> Self
    {
        self
    }
    pub fn contents_first(self, _yes: bool) -> Self
    {
        self
    }
}

pub struct IntoIter
{
    root: Vec<u8>,
    follow_links: bool,
    min_depth: usize,
    max_depth: usize,
    /// 0 = the root itself, i+1 = model entry i
    next: usize,
}

impl IntoIterator for WalkDir
{
    type Item = Result<DirEntry, Error>;
    type IntoIter = IntoIter;
    fn into_iter(self) -> IntoIter
    {
        let root = self.root.as_os_str().as_encoded_bytes().to_vec();
        unsafe {
            MODEL.walks += 1;
            MODEL.follow_links = self.follow_links;
            MODEL.root_matches = root.as_slice() == EXPECT_ROOT;
        }
        IntoIter { root, follow_links: self.follow_links, min_depth: self.min_depth, max_depth: self.max_depth, next: 0 }
    }
}

#[derive(Debug)]
pub struct Error;

impl std::fmt::Display for Error
{
    fn fmt(&self, _f: &mut std::fmt::Formatter<'_>) -> std::fmt::Result
    {
        Ok(())
    }
}
impl std::error::Error for Error {}

#[derive(Clone, Copy, PartialEq, Eq, Debug)]
pub struct FileType
{
    kind: u8,
}
impl FileType
{
    pub fn is_file(&self) -> bool
    {
        self.kind == KIND_FILE
    }
    pub fn is_dir(&self) -> bool
    {
        self.kind == KIND_DIR
    }
    pub fn is_symlink(&self) -> bool
    {
        self.kind == KIND_LINK_TO_FILE || self.kind == KIND_LINK_TO_DIR
    }
}

pub struct DirEntry
{
    path: PathBuf,
    ty: FileType,
    link: bool,
    depth: usize,
    name_from: usize,
}

impl DirEntry
{
    pub fn path(&self) -> &Path
    {
        &self.path
    }
    pub fn into_path(self) -> PathBuf
    {
        self.path
    }
    pub fn path_is_symlink(&self) -> bool
    {
        self.link
    }
    pub fn file_type(&self) -> FileType
    {
        self.ty
    }
    pub fn depth(&self) -> usize
    {
        self.depth
    }
    pub fn file_name(&self) -> &std::ffi::OsStr
    {
        let b = self.path.as_os_str().as_encoded_bytes();
        unsafe { std::ffi::OsStr::from_encoded_bytes_unchecked(&b[self.name_from..]) }
    }
}

impl Iterator for IntoIter
{
    type Item = Result<DirEntry, Error>;
    fn next(&mut self) -> Option<Self::Item>
    {
        loop
        {
            let k = self.next;
            let n = unsafe { MODEL.n };
            if k > n || k > MAX_ENTRIES
            {
                return None;
            }
            self.next += 1;
            if k == 0
            {
                if self.min_depth > 0
                {
                    continue;
                }
                unsafe { MODEL.yielded += 1 };
                let mut name_from = 0;
                let mut i = 0;
                while i < self.root.len()
                {
                    if self.root[i] == b'/' && i + 1 < self.root.len()
                    {
                        name_from = i + 1;
                    }
                    i += 1;
                }
                return Some(Ok(DirEntry {
                    path: PathBuf::from(OsString::from_vec(self.root.clone())),
                    ty: FileType { kind: KIND_DIR },
                    link: false,
                    depth: 0,
                    name_from,
                }));
            }
            let e = unsafe { MODEL.entries[k - 1] };
            let depth = e.depth as usize;
            if depth < self.min_depth || depth > self.max_depth
            {
                continue;
            }
            unsafe { MODEL.yielded += 1 };
            if e.kind == KIND_ERR
            {
                return Some(Err(Error));
            }
            let mut bytes = self.root.clone();
            bytes.push(b'/');
            let mut name_from = bytes.len();
            let mut i = 0;
            while i < e.len && i < MAX_REL
            {
                bytes.push(e.rel[i]);
                if e.rel[i] == b'/'
                {
                    name_from = bytes.len();
                }
                i += 1;
            }
            let link = e.kind == KIND_LINK_TO_FILE || e.kind == KIND_LINK_TO_DIR;
            let kind = if self.follow_links && e.kind == KIND_LINK_TO_FILE
            {
                KIND_FILE
            }
            else if self.follow_links && e.kind == KIND_LINK_TO_DIR
            {
                KIND_DIR
            }
            else
            {
                e.kind
            };
            return Some(Ok(DirEntry {
                path: PathBuf::from(OsString::from_vec(bytes)),
                ty: FileType { kind },
                link,
                depth,
                name_from,
            }));
        }
    }
}

//! Model of the `walkdir` crate for engine K (harness u_find).  The directory tree is not read from
//! a file system (that is kernel behaviour behind FFI): the walk yields the root followed by the
//! entries the harness put into `MODEL` - arbitrary names, kinds and depths.  What is modelled is
//! walkdir's documented contract: entries come in a fixed order, the root is entry 0 at depth 0, an
//! unreadable entry is an `Err`, `file_type()` reports a symbolic link as a link unless
//! `follow_links(true)` was requested, `min_depth`/`max_depth` drop entries outside the range, an entry at
//! depth 2 is preceded by its parent directory, and `filter_entry` drops an entry and, for a directory,
//! everything below it.
//! Anything else of the API is absent on purpose: a source that starts using it stops compiling
//! here and the check reports "inconclusive" instead of guessing.
#![allow(static_mut_refs)]
use std::ffi::OsString;
use std::os::unix::ffi::OsStringExt;
use std::path::{Path, PathBuf};

pub const MAX_ENTRIES: usize = 4;
pub const MAX_REL: usize = 8;

pub const KIND_FILE: u8 = 0;
pub const KIND_DIR: u8 = 1;
pub const KIND_LINK_TO_FILE: u8 = 2;
pub const KIND_LINK_TO_DIR: u8 = 3;
pub const KIND_ERR: u8 = 4;
pub const KIND_OTHER: u8 = 5; // fifo, socket, device

#[derive(Clone, Copy)]
pub struct ModelEntry
{
    pub kind: u8,
    pub depth: u8,
    /// path below the root, `len` bytes
    pub rel: [u8; MAX_REL],
    pub len: usize,
}

pub struct Model
{
    pub n: usize,
    pub entries: [ModelEntry; MAX_ENTRIES],
    /// observations for the harness
    pub walks: usize,
    pub yielded: usize,
    pub follow_links: bool,
    pub root_matches: bool,
}

pub static mut MODEL: Model = Model {
    n: 0,
    entries: [ModelEntry { kind: 0, depth: 1, rel: [0; MAX_REL], len: 0 }; MAX_ENTRIES],
    walks: 0,
    yielded: 0,
    follow_links: false,
    root_matches: false,
};
/// the root the harness expects the walk to start from
pub static mut EXPECT_ROOT: &[u8] = b"";

pub struct WalkDir
{
    root: PathBuf,
    follow_links: bool,
    min_depth: usize,
    max_depth: usize,
}

impl WalkDir
{
    pub fn new<P: AsRef<Path>>(root: P) -> Self
    {
        WalkDir { root: root.as_ref().to_path_buf(), follow_links: false, min_depth: 0, max_depth: usize::MAX }
    }
    pub fn follow_links(mut self, yes: bool) -> Self
    {
        self.follow_links = yes;
        self
    }
    pub fn follow_root_links(self, _yes: bool) -> Self
    {
        self
    }
    pub fn min_depth(mut self, d: usize) -> Self
    {
        self.min_depth = d;
        self
    }
    pub fn max_depth(mut self, d: usize) -> Self
    {
        self.max_depth = d;
        self
    }
    pub fn same_file_system(self, _yes: bool) -> Self
    {
        self
    }
    pub fn contents_first(self, _yes: bool) -> Self
    {
        self
    }
}

pub struct IntoIter
{
    root: Vec<u8>,
    follow_links: bool,
    min_depth: usize,
    max_depth: usize,
    /// 0 = the root itself, i+1 = model entry i
    next: usize,
    /// the parent directory of model entry `next - 1` has been yielded, the entry itself comes next
    parent_done: bool,
    /// set by skip_current_dir(): model entries below this directory (length of its name) are not yielded
    skip_dir: Option<([u8; MAX_REL], usize)>,
    last_was_dir: Option<([u8; MAX_REL], usize)>,
}

impl IntoIterator for WalkDir
{
    type Item = Result<DirEntry, Error>;
    type IntoIter = IntoIter;
    fn into_iter(self) -> IntoIter
    {
        let root = self.root.as_os_str().as_encoded_bytes().to_vec();
        unsafe {
            MODEL.walks += 1;
            MODEL.follow_links = self.follow_links;
            MODEL.root_matches = root.as_slice() == EXPECT_ROOT;
        }
        IntoIter { root, follow_links: self.follow_links, min_depth: self.min_depth, max_depth: self.max_depth, next: 0,
                   parent_done: false, skip_dir: None, last_was_dir: None }
    }
}

#[derive(Debug)]
pub struct Error;

impl std::fmt::Display for Error
{
    fn fmt(&self, _f: &mut std::fmt::Formatter<'_>) -> std::fmt::Result
    {
        Ok(())
    }
}
impl std::error::Error for Error {}

#[derive(Clone, Copy, PartialEq, Eq, Debug)]
pub struct FileType
{
    kind: u8,
}
impl FileType
{
    pub fn is_file(&self) -> bool
    {
        self.kind == KIND_FILE
    }
    pub fn is_dir(&self) -> bool
    {
        self.kind == KIND_DIR
    }
    pub fn is_symlink(&self) -> bool
    {
        self.kind == KIND_LINK_TO_FILE || self.kind == KIND_LINK_TO_DIR
    }
}

pub struct DirEntry
{
    path: PathBuf,
    ty: FileType,
    link: bool,
    depth: usize,
    name_from: usize,
}

impl DirEntry
{
    pub fn path(&self) -> &Path
    {
        &self.path
    }
    pub fn into_path(self) -> PathBuf
    {
        self.path
    }
    pub fn path_is_symlink(&self) -> bool
    {
        self.link
    }
    pub fn file_type(&self) -> FileType
    {
        self.ty
    }
    pub fn depth(&self) -> usize
    {
        self.depth
    }
    pub fn file_name(&self) -> &std::ffi::OsStr
    {
        let b = self.path.as_os_str().as_encoded_bytes();
        unsafe { std::ffi::OsStr::from_encoded_bytes_unchecked(&b[self.name_from..]) }
    }
}

impl IntoIter
{
    /// walkdir: do not descend into the directory that was yielded last
    pub fn skip_current_dir(&mut self)
    {
        if let Some(d) = self.last_was_dir
        {
            self.skip_dir = Some(d);
        }
    }
    pub fn filter_entry<P>(self, predicate: P) -> FilterEntry<P>
    where
        P: FnMut(&DirEntry) -> bool,
    {
        FilterEntry { it: self, predicate }
    }
    fn entry(&self, rel: &[u8; MAX_REL], len: usize, kind: u8, link: bool, depth: usize) -> DirEntry
    {
        let mut bytes = self.root.clone();
        bytes.push(b'/');
        let mut name_from = bytes.len();
        let mut i = 0;
        while i < len && i < MAX_REL
        {
            bytes.push(rel[i]);
            if rel[i] == b'/'
            {
                name_from = bytes.len();
            }
            i += 1;
        }
        DirEntry { path: PathBuf::from(OsString::from_vec(bytes)), ty: FileType { kind }, link, depth, name_from }
    }
}

pub struct FilterEntry<P>
{
    it: IntoIter,
    predicate: P,
}

impl<P> Iterator for FilterEntry<P>
where
    P: FnMut(&DirEntry) -> bool,
{
    type Item = Result<DirEntry, Error>;
    fn next(&mut self) -> Option<Self::Item>
    {
        loop
        {
            let e = match self.it.next()
            {
                None => return None,
                Some(Err(e)) => return Some(Err(e)),
                Some(Ok(e)) => e,
            };
            if !(self.predicate)(&e)
            {
                if e.file_type().is_dir()
                {
                    self.it.skip_current_dir();
                }
                continue;
            }
            return Some(Ok(e));
        }
    }
}

impl<P> FilterEntry<P>
where
    P: FnMut(&DirEntry) -> bool,
{
    pub fn filter_entry(self, predicate: P) -> FilterEntry<P>
    {
        // nested filters are outside the model
        let _ = predicate;
        self
    }
}

impl Iterator for IntoIter
{
    type Item = Result<DirEntry, Error>;
    fn next(&mut self) -> Option<Self::Item>
    {
        loop
        {
            let k = self.next;
            let n = unsafe { MODEL.n };
            if k > n || k > MAX_ENTRIES
            {
                return None;
            }
            if k == 0
            {
                self.next += 1;
                self.last_was_dir = None;
                if self.min_depth > 0
                {
                    continue;
                }
                unsafe { MODEL.yielded += 1 };
                let mut name_from = 0;
                let mut i = 0;
                while i < self.root.len()
                {
                    if self.root[i] == b'/' && i + 1 < self.root.len()
                    {
                        name_from = i + 1;
                    }
                    i += 1;
                }
                return Some(Ok(DirEntry {
                    path: PathBuf::from(OsString::from_vec(self.root.clone())),
                    ty: FileType { kind: KIND_DIR },
                    link: false,
                    depth: 0,
                    name_from,
                }));
            }
            let e = unsafe { MODEL.entries[k - 1] };
            let depth = e.depth as usize;
            // an entry at depth 2 is `<dir>/<name>`: its directory is yielded first
            let mut dir_len = 0;
            if depth == 2
            {
                while dir_len < e.len && dir_len < MAX_REL && e.rel[dir_len] != b'/'
                {
                    dir_len += 1;
                }
                if !self.parent_done
                {
                    self.parent_done = true;
                    self.skip_dir = None;
                    if 1 >= self.min_depth && 1 <= self.max_depth
                    {
                        self.last_was_dir = Some((e.rel, dir_len));
                        unsafe { MODEL.yielded += 1 };
                        return Some(Ok(self.entry(&e.rel, dir_len, KIND_DIR, false, 1)));
                    }
                }
            }
            self.next += 1;
            self.parent_done = false;
            if depth == 2 && self.skip_dir.is_some()
            {
                // below a directory the caller asked not to descend into
                self.skip_dir = None;
                continue;
            }
            if depth < self.min_depth || depth > self.max_depth
            {
                continue;
            }
            unsafe { MODEL.yielded += 1 };
            if e.kind == KIND_ERR
            {
                self.last_was_dir = None;
                return Some(Err(Error));
            }
            let link = e.kind == KIND_LINK_TO_FILE || e.kind == KIND_LINK_TO_DIR;
            let kind = if self.follow_links && e.kind == KIND_LINK_TO_FILE
            {
                KIND_FILE
            }
            else if self.follow_links && e.kind == KIND_LINK_TO_DIR
            {
                KIND_DIR
            }
            else
            {
                e.kind
            };
            self.last_was_dir = if kind == KIND_DIR { Some((e.rel, e.len)) } else { None };
            return Some(Ok(self.entry(&e.rel, e.len, kind, link, depth)));
        }
    }
}

//! Verification shim for `tracing`: `event!` is only used by breadlog to let its unit tests observe
//! branches; Kani 0.68 ICEs when the real macro expansion is reachable. Arguments are type-checked
//! through `format_args!` but never formatted.
pub struct Level;
impl Level
{
    pub const TRACE: Level = Level;
    pub const DEBUG: Level = Level;
    pub const INFO: Level = Level;
    pub const WARN: Level = Level;
    pub const ERROR: Level = Level;
}
#[macro_export]
macro_rules! event {
    ($lvl:expr, $($arg:tt)+) => {{
        let _ = &$lvl;
        if false { let _ = format_args!($($arg)+); }
    }};
}

//! Verification shim for the `regex` crate (Engine K, harnesses over code_parser.rs only).
//!
//! Kani cannot compile the real crate when `Regex::new` is reachable. This shim offers the API
//! breadlog uses (`Regex::new`, `captures`, `captures_iter`, `Captures::{iter,get,[i]}`,
//! `Match::{as_str,start,end}`) over matcher tables that /verif/lib/kengine.py generates on every
//! run from the regex literals found in /repo's current sources (tables.rs, next to this file).
//! The matcher is a byte-level backtracking matcher with the regex crate's leftmost-first, greedy
//! semantics for the supported subset (alternation of items; item = byte class with {lo,hi}; one
//! capture group per alternative, not quantified; ^ and $). Bytes >= 0x80 belong to a class only
//! through `.` / negated classes, which is exact for patterns whose literals are ASCII.
#![allow(dead_code)]

pub struct Item
{
    pub class: [u64; 4],
    pub lo: usize,
    pub hi: usize,
    pub group: usize,
    pub gfirst: bool,
    pub glast: bool,
}
pub struct Alt
{
    pub anchored_start: bool,
    pub anchored_end: bool,
    pub items: &'static [Item],
}
pub struct Table
{
    pub pattern: &'static str,
    pub groups: usize,
    pub alts: &'static [Alt],
}
include!("tables.rs");

pub const MAXG: usize = 4;

#[derive(Debug)]
pub struct Error;
impl std::fmt::Display for Error
{
    fn fmt(&self, f: &mut std::fmt::Formatter<'_>) -> std::fmt::Result
    {
        f.write_str("pattern unknown to the verification shim")
    }
}

pub struct Regex
{
    id: usize,
}

fn in_class(c: &[u64; 4], b: u8) -> bool
{
    (c[(b >> 6) as usize] >> (b & 63)) & 1 == 1
}

fn try_items(alt: &Alt, idx: usize, text: &[u8], pos: usize, caps: &mut [Option<(usize, usize)>; MAXG]) -> Option<usize>
{
    if idx == alt.items.len()
    {
        if alt.anchored_end && pos != text.len()
        {
            return None;
        }
        return Some(pos);
    }
    let it = &alt.items[idx];
    let mut maxrep = 0;
    while maxrep < it.hi && pos + maxrep < text.len() && in_class(&it.class, text[pos + maxrep])
    {
        maxrep += 1;
    }
    if maxrep < it.lo
    {
        return None;
    }
    let mut rep = maxrep;
    loop
    {
        let saved = *caps;
        if it.group != 0
        {
            let start = if it.gfirst { pos } else { match caps[it.group] { Some((s, _)) => s, None => pos } };
            caps[it.group] = Some((start, pos + rep));
        }
        if let Some(e) = try_items(alt, idx + 1, text, pos + rep, caps)
        {
            return Some(e);
        }
        *caps = saved;
        if rep == it.lo
        {
            break;
        }
        rep -= 1;
    }
    None
}

fn search(id: usize, text: &[u8], from: usize) -> Option<[Option<(usize, usize)>; MAXG]>
{
    let t = &TABLES[id];
    let mut s = from;
    while s <= text.len()
    {
        let mut a = 0;
        while a < t.alts.len()
        {
            let alt = &t.alts[a];
            if !(alt.anchored_start && s != 0)
            {
                let mut caps: [Option<(usize, usize)>; MAXG] = [None; MAXG];
                if let Some(e) = try_items(alt, 0, text, s, &mut caps)
                {
                    caps[0] = Some((s, e));
                    return Some(caps);
                }
            }
            a += 1;
        }
        s += 1;
    }
    None
}

impl Regex
{
    pub fn new(pattern: &str) -> Result<Regex, Error>
    {
        let mut i = 0;
        while i < TABLES.len()
        {
            if TABLES[i].pattern.len() == pattern.len() && TABLES[i].pattern.as_bytes() == pattern.as_bytes()
            {
                return Ok(Regex { id: i });
            }
            i += 1;
        }
        Err(Error)
    }

    pub fn is_match(&self, text: &str) -> bool
    {
        search(self.id, text.as_bytes(), 0).is_some()
    }

    pub fn captures<'t>(&self, text: &'t str) -> Option<Captures<'t>>
    {
        match search(self.id, text.as_bytes(), 0)
        {
            Some(g) => Some(Captures { text, g, n: TABLES[self.id].groups + 1 }),
            None => None,
        }
    }

    pub fn captures_iter<'r, 't>(&'r self, text: &'t str) -> CaptureMatches<'r, 't>
    {
        CaptureMatches { re: self, text, at: 0, done: false }
    }
}

pub struct CaptureMatches<'r, 't>
{
    re: &'r Regex,
    text: &'t str,
    at: usize,
    done: bool,
}
impl<'r, 't> Iterator for CaptureMatches<'r, 't>
{
    type Item = Captures<'t>;
    fn next(&mut self) -> Option<Captures<'t>>
    {
        if self.done
        {
            return None;
        }
        match search(self.re.id, self.text.as_bytes(), self.at)
        {
            Some(g) =>
            {
                let (s, e) = g[0].unwrap();
                self.at = if e > s { e } else { e + 1 };
                if self.at > self.text.len()
                {
                    self.done = true;
                }
                Some(Captures { text: self.text, g, n: TABLES[self.re.id].groups + 1 })
            },
            None =>
            {
                self.done = true;
                None
            },
        }
    }
}

pub struct Captures<'t>
{
    text: &'t str,
    g: [Option<(usize, usize)>; MAXG],
    n: usize,
}
impl<'t> Captures<'t>
{
    pub fn get(&self, i: usize) -> Option<Match<'t>>
    {
        if i >= self.n
        {
            return None;
        }
        match self.g[i]
        {
            Some((s, e)) => Some(Match { text: self.text, start: s, end: e }),
            None => None,
        }
    }
    pub fn len(&self) -> usize
    {
        self.n
    }
    pub fn iter<'c>(&'c self) -> SubCaptureMatches<'c, 't>
    {
        SubCaptureMatches { caps: self, i: 0 }
    }
}
impl<'t> std::ops::Index<usize> for Captures<'t>
{
    type Output = str;
    fn index(&self, i: usize) -> &str
    {
        match self.get(i)
        {
            Some(m) => m.as_str(),
            None => panic!("no group at index"),
        }
    }
}
pub struct SubCaptureMatches<'c, 't>
{
    caps: &'c Captures<'t>,
    i: usize,
}
impl<'c, 't> Iterator for SubCaptureMatches<'c, 't>
{
    type Item = Option<Match<'t>>;
    fn next(&mut self) -> Option<Option<Match<'t>>>
    {
        if self.i >= self.caps.n
        {
            return None;
        }
        let r = self.caps.get(self.i);
        self.i += 1;
        Some(r)
    }
}
#[derive(Clone, Copy)]
pub struct Match<'t>
{
    text: &'t str,
    start: usize,
    end: usize,
}
impl<'t> Match<'t>
{
    pub fn as_str(&self) -> &'t str
    {
        // byte offsets produced by the matcher for ASCII-literal patterns are char boundaries
        unsafe { std::str::from_utf8_unchecked(&self.text.as_bytes()[self.start..self.end]) }
    }
    pub fn start(&self) -> usize
    {
        self.start
    }
    pub fn end(&self) -> usize
    {
        self.end
    }
}

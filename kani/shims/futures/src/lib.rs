//! Verification shim for the part of `futures` that could be used on the model's `File`:
//! `AsyncWriteExt::{write_all, flush, close}` (desugared: synchronous). As in async-std 1.13,
//! closing a file does NOT drain its write cache (`poll_close` returns `Ok(())` immediately).
pub mod io
{
    pub trait AsyncWriteExt
    {
        fn write_all(&mut self, buf: &[u8]) -> async_std::io::Result<()>;
        fn flush(&mut self) -> async_std::io::Result<()>;
        fn close(&mut self) -> async_std::io::Result<()>;
    }
    impl AsyncWriteExt for async_std::fs::File
    {
        fn write_all(&mut self, buf: &[u8]) -> async_std::io::Result<()>
        {
            async_std::io::WriteExt::write_all(self, buf)
        }
        fn flush(&mut self) -> async_std::io::Result<()>
        {
            async_std::io::WriteExt::flush(self)
        }
        fn close(&mut self) -> async_std::io::Result<()>
        {
            unsafe {
                let (_k, fail) = async_std::model::begin_op();
                if fail
                {
                    return Err(async_std::io::injected());
                }
            }
            Ok(())
        }
    }
}
pub use io::AsyncWriteExt;

// Native oracle runner: links the REAL breadlog parser (src/parser, src/config included by path from
// /repo) and answers requests on stdin, one JSON object per line:
//   {"op":"find","code":"...","structured":bool,"macros":[["log","info"],...]}
//      -> {"entries":[{"pos":..,"line":..,"col":..,"reference":null|n,"kind":"String",...,"token7":"..."}]}
//   {"op":"extract","text":"..."} -> {"reference":null|n}
//   {"op":"ignore"|"nokvp","code":"...","pos":n} -> {"result":bool}   (real comment regex of rust_parser.rs)
// Panics are caught and reported as {"panic":"..."}.
extern crate pest;
#[macro_use]
extern crate pest_derive;

#[allow(dead_code)]
#[path = "REPO_SRC/config/mod.rs"]
mod config;
#[allow(dead_code)]
#[path = "REPO_SRC/parser/mod.rs"]
mod parser;

use std::io::{BufRead, Write};

fn esc(s: &str) -> String
{
    let mut o = String::new();
    for c in s.chars()
    {
        match c
        {
            '"' => o.push_str("\\\""),
            '\\' => o.push_str("\\\\"),
            '\n' => o.push_str("\\n"),
            '\r' => o.push_str("\\r"),
            '\t' => o.push_str("\\t"),
            c if (c as u32) < 0x20 => o.push_str(&format!("\\u{:04x}", c as u32)),
            c => o.push(c),
        }
    }
    o
}

fn unhex(s: &str) -> String
{
    let b = s.as_bytes();
    let mut out = Vec::with_capacity(b.len() / 2);
    let mut i = 0;
    while i + 1 < b.len()
    {
        let h = (b[i] as char).to_digit(16).unwrap_or(0) as u8;
        let l = (b[i + 1] as char).to_digit(16).unwrap_or(0) as u8;
        out.push(h * 16 + l);
        i += 2;
    }
    String::from_utf8_lossy(&out).into_owned()
}

fn handle(req: &serde_yaml::Value) -> String
{
    let op = req["op"].as_str().unwrap_or("");
    match op
    {
        "find" =>
        {
            let code_owned = unhex(req["code_hex"].as_str().unwrap_or(""));
            let code = code_owned.as_str();
            let structured = req["structured"].as_bool().unwrap_or(false);
            let mut macros = Vec::new();
            if let Some(ms) = req["macros"].as_sequence()
            {
                for m in ms
                {
                    macros.push(config::context::RustLogMacro {
                        module: m[0].as_str().unwrap_or("").to_string(),
                        name: m[1].as_str().unwrap_or("").to_string(),
                    });
                }
            }
            let cfg = config::context::Config {
                config_dir: String::new(),
                source_dir: String::new(),
                use_cache: false,
                rust: config::context::RustConfig {
                    structured,
                    log_macros: macros,
                    extensions: vec!["rs".to_string()],
                },
            };
            let entries = parser::code_parser::find_references(parser::code_parser::CodeLanguage::Rust, code, &cfg);
            let mut out = String::from("{\"entries\":[");
            for (i, e) in entries.iter().enumerate()
            {
                if i > 0
                {
                    out.push(',');
                }
                out.push_str(&format!(
                    "{{\"pos\":{},\"line\":{},\"col\":{},\"reference\":{},\"kind\":\"{:?}\",\"usable\":{},\"exists\":{},\"name\":\"{}\",\"token7\":\"{}\",\"token_max\":\"{}\"}}",
                    e.position().character(),
                    e.position().line(),
                    e.position().column(),
                    match e.reference() { Some(r) => r.to_string(), None => "null".to_string() },
                    e.kind(),
                    e.usable_reference_position(),
                    e.exists(),
                    esc(e._macro_name()),
                    esc(&e.insertable_reference_string(7)),
                    esc(&e.insertable_reference_string(4294967295)),
                ));
            }
            out.push_str("]}");
            out
        },
        "extract" =>
        {
            let text_owned = unhex(req["text_hex"].as_str().unwrap_or(""));
            let text = text_owned.as_str();
            match parser::LogRefEntry::extract_reference(text)
            {
                Some(r) => format!("{{\"reference\":{}}}", r),
                None => "{\"reference\":null}".to_string(),
            }
        },
        _ => "{\"error\":\"unknown op\"}".to_string(),
    }
}

fn main()
{
    std::panic::set_hook(Box::new(|_| {}));
    let stdin = std::io::stdin();
    let stdout = std::io::stdout();
    for line in stdin.lock().lines()
    {
        let line = match line
        {
            Ok(l) => l,
            Err(_) => break,
        };
        if line.trim().is_empty()
        {
            continue;
        }
        let req: serde_yaml::Value = match serde_yaml::from_str(&line)
        {
            Ok(v) => v,
            Err(e) =>
            {
                let _ = writeln!(stdout.lock(), "{{\"error\":\"bad request: {}\"}}", esc(&e.to_string()));
                continue;
            },
        };
        let res = std::panic::catch_unwind(|| handle(&req));
        let out = match res
        {
            Ok(s) => s,
            Err(p) =>
            {
                let msg = if let Some(s) = p.downcast_ref::<String>() { s.clone() } else if let Some(s) = p.downcast_ref::<&str>() { s.to_string() } else { "panic".to_string() };
                format!("{{\"panic\":\"{}\"}}", esc(&msg))
            },
        };
        let mut lock = stdout.lock();
        let _ = writeln!(lock, "{}", out);
        let _ = lock.flush();
    }
}

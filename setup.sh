#!/bin/bash
# Build the warm Kani dependency cache (offline). Everything else is interpreted.
set -e
cd "$(dirname "$0")"
export CARGO_NET_OFFLINE=true
python3-vt - <<'PY'
import sys
sys.path.insert(0, "lib")
import kengine
kengine.ensure_cache()
print("kani cache ready:", kengine.KANI_TARGET)
PY

"""One shard of one Engine S obligation. Prints a single JSON line."""
import json
import os
import sys
import traceback

sys.path.insert(0, os.path.dirname(os.path.abspath(__file__)))
sys.path.insert(0, os.path.join(os.path.dirname(os.path.abspath(__file__)), "..", "lib"))


def main():
    fn, kw, shard, nshards = sys.argv[1], json.loads(sys.argv[2]), int(sys.argv[3]), int(sys.argv[4])
    out = {"results": [], "validation": None, "error": None}
    try:
        import model
        import queries
        from pest import Unsupported
        repo = os.environ.get("BLV_REPO", "/repo")
        cons = None
        if shard == 0:
            # constructed statements against property-level expectations: needs no encoder, so it also runs when the
            # encoder cannot follow the source
            import validate
            cons = validate.constructed()
            out["validation"] = {"compared": cons["compared"], "skipped": 0, "diffs": [], "linecol": [],
                                 "panics": [[d[0], d[1], d[2]] for d in cons["panics"][:5]],
                                 "sweep": [[d[0], d[1], d[2]] for d in cons["sweep"][:5]],
                                 "refsweep": [[d[0], d[1], d[2]] for d in cons["refsweep"][:5]]}
        try:
            src = model.Sources(repo)
        except Unsupported as e:
            out["error"] = "encoder cannot follow the source: %s" % e
            print(json.dumps(out, default=str))
            return
        if shard == 0:
            n, skipped, diffs = validate.run(repo)
            out["validation"].update({"compared": n + cons["compared"], "skipped": skipped,
                                      "diffs": [[d[0], d[1], str(d[2])[:300]] for d in diffs[:5]],
                                      "linecol": [[d[0], d[1], d[2]] for d in getattr(validate.run, "linecol", [])[:5]],
                                      "panics": out["validation"]["panics"] + [[d[0], d[1], d[2]] for d in getattr(validate.run, "panics", [])[:5]]})
        if fn != "validation_only":
            queries.set_shard(shard, nshards)
            queries.SEED = int(os.environ.get("VERIF_SEED", "0") or 0)
            queries.INSTANCES = 10 if os.environ.get("BLV_TIER") == "thorough" else 4
            queries.CROSS = os.environ.get("BLV_TIER") == "thorough" and fn in ("c12_rule", "c12_token", "c11_freeform", "c03_positions", "c11_strings")
            if "ks" in kw:
                kw["ks"] = tuple(kw["ks"])
            try:
                out["results"] = getattr(queries, fn)(src, **kw)
            except Unsupported as e:
                out["error"] = "encoder cannot follow the source: %s" % e
        else:
            out["results"] = [{"name": "validation", "verdict": "holds" if not out["validation"]["diffs"] else "inconclusive",
                               "seconds": 0.0, "bound": "%d comparisons with the real find()" % out["validation"]["compared"],
                               "witness": None, "twin": "n/a", "note": ""}]
    except Exception:
        out["error"] = traceback.format_exc()[-1500:]
    print(json.dumps(out, default=str))


if __name__ == "__main__":
    main()

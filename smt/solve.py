"""Solver front end: z3 decides; every query is also dumped as SMT-LIB2 and (for a sample) re-checked
with cvc5; a disagreement, an `(error` line or an `unknown` is inconclusive."""
import os
import subprocess
import tempfile
import time

import z3

import alphabet as A


class Result:
    def __init__(self, name, verdict, seconds, model=None, note="", stats=None):
        self.name = name
        self.verdict = verdict  # 'unsat' | 'sat' | 'unknown'
        self.seconds = seconds
        self.model = model
        self.note = note
        self.stats = stats or {}


def check(name, constraints, timeout_s=300, cross_check=False):
    s = z3.Solver()
    s.set("timeout", int(timeout_s * 1000))
    for c in constraints:
        if c is True:
            continue
        if c is False:
            s.add(z3.BoolVal(False))
        else:
            s.add(c)
    t0 = time.time()
    r = s.check()
    dt = time.time() - t0
    verdict = "sat" if r == z3.sat else ("unsat" if r == z3.unsat else "unknown")
    model = s.model() if r == z3.sat else None
    note = ""
    if cross_check and verdict in ("sat", "unsat"):
        other = cvc5_check(s, timeout_s)
        if other not in (verdict, "timeout"):
            note = "cvc5 says %s" % other
            verdict = "unknown"
        else:
            note = "cvc5: %s" % other
    return Result(name, verdict, dt, model, note, {"assertions": len(s.assertions())})


def cvc5_check(solver, timeout_s):
    smt = "(set-logic ALL)\n" + solver.to_smt2().replace("ubv_to_int", "bv2nat")
    timeout_s = min(timeout_s, 60)
    with tempfile.NamedTemporaryFile("w", suffix=".smt2", delete=False, dir=os.environ.get("BLV_SCRATCH", "/var/tmp")) as f:
        f.write(smt)
        path = f.name
    try:
        p = subprocess.run(["cvc5", "--lang", "smt2", "--tlimit=%d" % int(timeout_s * 1000), path],
                           stdout=subprocess.PIPE, stderr=subprocess.STDOUT, text=True, timeout=timeout_s + 30)
        out = p.stdout.strip().splitlines()
        if any("(error" in l for l in out):
            return "error"
        for l in out:
            if l.strip() in ("sat", "unsat"):
                return l.strip()
        return "timeout"
    except subprocess.TimeoutExpired:
        return "timeout"
    finally:
        os.unlink(path)


def text_of_model(model, text):
    codes = []
    for ch in text.c:
        if isinstance(ch, int):
            codes.append(ch)
        else:
            v = model.eval(ch, model_completion=True).as_long()
            codes.append(v)
    # cut at first PAD
    out = []
    for c in codes:
        if c == A.PAD:
            break
        out.append(c)
    return A.decode(out), out


def any_instance(text, cons, timeout_s=30):
    """some text satisfying the constraints (for shapes that fail without any search)"""
    r = check("instance", cons, timeout_s)
    if r.model is None:
        return None
    return text_of_model(r.model, text)[0]


def more_instances(text, cons, first_model, k, seed=0, timeout_s=20):
    """up to k further models of `cons` whose texts differ from each other and from first_model"""
    sym = [ch for ch in text.c if not isinstance(ch, int)]
    if not sym or k <= 0:
        return []
    s = z3.Solver()
    s.set("timeout", int(timeout_s * 1000))
    s.set("random_seed", int(seed) % 1000)
    for c in cons:
        if c is True:
            continue
        s.add(z3.BoolVal(False) if c is False else c)
    out = []
    model = first_model
    for _ in range(k):
        s.add(z3.Or(*[ch != model.eval(ch, model_completion=True) for ch in sym]))
        # push towards different characters: ask for at least a third of the symbolic positions to change
        if s.check() != z3.sat:
            break
        model = s.model()
        out.append(text_of_model(model, text)[0])
    return out

"""Engine S queries.  Every function returns a list of query records:
   {"name", "verdict": holds|violated|inconclusive, "seconds", "bound", "witness", "twin"}
A query asserts the NEGATION of the property over a bounded symbolic text; unsat = holds within the
bound.  Each unsat query has a sat twin (same constraints, goal dropped or weakened) as a vacuity guard."""
import time

import z3


def zsum(terms):
    """z3.Sum that never builds a one-argument `+` (cvc5 rejects it)"""
    terms = list(terms)
    if not terms:
        return z3.IntVal(0)
    if len(terms) == 1:
        return terms[0]
    return z3.Sum(terms)

import alphabet as A
import directive
import model
import peg
import solve
import tmpl
from peg import And, Not, Or

QS = frozenset([ord('"'), ord("/"), ord("'")])
INFO = (("log", "info"),)


_SHARD = (0, 1)
INSTANCES = 4
SEED = 0


def set_shard(shard, nshards):
    global _SHARD
    _SHARD = (shard, nshards)


def mine(idx):
    return idx % _SHARD[1] == _SHARD[0]


def no_directive(t):
    """no `g:` / `G:` anywhere: the directive texts cannot occur, so directives are out of the picture"""
    return [Not(And(Or(t.is_code(i, ord("g")), t.is_code(i, ord("G"))), t.is_code(i + 1, ord(":")), Or(*[t.is_code(i + 2, ord(x)) for x in "iInN"])))
            for i in range(t.n - 2)]


def rec(name, res, bound, witness=None, twin=None, extra=None):
    v = {"unsat": "holds", "sat": "violated"}.get(res.verdict, "inconclusive")
    r = {"name": name, "verdict": v, "seconds": round(res.seconds, 3), "bound": bound, "witness": witness,
         "twin": twin, "note": res.note}
    if extra:
        r.update(extra)
    return r


CROSS = False  # thorough tier: every query is also given to cvc5


def run_query(name, t, cons, goal, bound, timeout=300, twin_goal=True, cross=False, extra=None):
    """goal = condition describing a violation."""
    res = solve.check(name, cons + [goal], timeout_s=timeout, cross_check=cross or CROSS)
    witness = None
    if res.verdict == "sat":
        text, codes = solve.text_of_model(res.model, t)
        witness = {"text": text}
    twin = None
    if res.verdict == "unsat":
        tw = solve.check(name + "-twin", cons + ([twin_goal] if twin_goal is not True else []), timeout_s=timeout)
        twin = tw.verdict
        if tw.verdict == "sat":
            extra = dict(extra or {})
            extra["instance"] = solve.text_of_model(tw.model, t)[0]
            # a few more, different, solver-chosen instances for the conformance run on the real find()
            extra["instances"] = solve.more_instances(t, cons + ([twin_goal] if twin_goal is not True else []), tw.model,
                                                      INSTANCES - 1, SEED)
        if tw.verdict != "sat":
            res.verdict = "unknown"
            res.note = "vacuity twin is %s" % tw.verdict
    return rec(name, res, bound, witness, twin, extra)


# ================================================================================================
# C11: decoys
# ================================================================================================
def c11_freeform(src, n, timeout=300):
    out = []
    t = peg.Text.symbolic(n, "d")
    fm = model.FileModel(src, t)
    base = list(t.well_formed())
    N = n
    is_ = lambda i, ch: t.is_code(i, ord(ch))
    anyfound = Or(*fm.found.values())
    # (a) line comment running to the end of the text (last line without newline)
    viol = []
    for k in range(N - 1):
        pre = And(*[Not(t.in_set(i, QS)) for i in range(k)])
        open_ = And(is_(k, "/"), is_(k + 1, "/"))
        nonl = And(*[Not(t.is_code(i, 10)) for i in range(k + 2, N)])
        inside = Or(*[c for p, c in fm.found.items() if p >= k])
        viol.append(And(pre, open_, nonl, inside))
    exp = {"kind": "none_in_comment", "structured": False, "macros": "any-name"}
    out.append(run_query("c11-line-comment-at-eof", t, base, Or(*viol),
                         "every text of <= %d characters over the alphabet" % n, timeout, twin_goal=anyfound, extra={"expect": exp}))
    # (b) line comment terminated by a newline, anything after it
    viol = []
    for k in range(N - 1):
        pre = And(*[Not(t.in_set(i, QS)) for i in range(k)])
        open_ = And(is_(k, "/"), is_(k + 1, "/"))
        for e in range(k + 2, N):
            nonl = And(*[Not(t.is_code(i, 10)) for i in range(k + 2, e)])
            inside = Or(*[c for p, c in fm.found.items() if k <= p < e])
            viol.append(And(pre, open_, nonl, t.is_code(e, 10), inside))
    out.append(run_query("c11-line-comment", t, base, Or(*viol),
                         "every text of <= %d characters" % n, timeout, twin_goal=anyfound, extra={"expect": exp}))
    # (c) block comment with Rust's nesting rule (a comment that is closed before the text ends)
    D = 2
    viol = []
    for k in range(N - 1):
        pre = And(*[Not(t.in_set(i, QS)) for i in range(k)])
        open_ = And(is_(k, "/"), is_(k + 1, "*"))
        # state before position i: (depth, i is the 2nd char of a token, comment already closed)
        cur = {(0, False, False): True}
        inside = {}
        for i in range(k, N + 1):
            inside[i] = Or(*[c for (d, sk, closed), c in cur.items() if not closed])
            if i == N:
                break
            nxt = {}

            def add(key, c):
                if c is not False:
                    nxt[key] = Or(nxt.get(key, False), c)
            for (d, sk, closed), c in cur.items():
                if closed:
                    add((0, False, True), c)
                    continue
                if sk:
                    add((d, False, d == 0), c)
                    continue
                opens = And(is_(i, "/"), is_(i + 1, "*")) if i + 1 < N else False
                closes = And(is_(i, "*"), is_(i + 1, "/")) if (i + 1 < N and d >= 1) else False
                if d + 1 <= D:
                    add((d + 1, True, False), And(c, opens))
                else:
                    add((d, False, False), And(c, opens, False))  # deeper nesting: outside the bound
                add((d - 1, True, False), And(c, closes))
                add((d, False, False), And(c, Not(opens), Not(closes)))
            cur = nxt
        closed_eventually = Or(*[c for (d, sk, closed), c in cur.items() if closed or (sk and d == 0)])
        hit = Or(*[And(c, inside[p]) for p, c in fm.found.items() if p >= k])
        viol.append(And(pre, open_, closed_eventually, hit))
    out.append(run_query("c11-block-comment-nested", t, base, Or(*viol),
                         "every text of <= %d characters; comment nesting depth <= %d" % (n, D), timeout,
                         twin_goal=anyfound, extra={"expect": exp}))
    return out


# ================================================================================================
# C10 / C13: canonical statements are found and the reference is placed correctly (templated)
# ================================================================================================
MSG_CHARS = frozenset(c for c in A.ALL_CODES if c not in (10, 13))


def canonical_template(name, prefix_len, gaps, target, kvs, msg_len, tail_len, tag):
    """prefix  NAME g0 ! g1 ( g2 [target: "T" g3 , g4] [kvs ; g5] "MSG" rest
    gaps: dict gap-name -> length (whitespace holes); kvs: list of literal key-value texts"""
    T = tmpl.Template(tag)
    T.hole("pre", prefix_len, tmpl.NO_QUOTE_SLASH)
    T.lit(name, mark="name")
    T.hole("g0", gaps.get("g0", 0), tmpl.WS_GRAMMAR)
    T.lit("!")
    T.hole("g1", gaps.get("g1", 0), tmpl.WS_GRAMMAR)
    T.lit("(", mark="paren")
    T.hole("g2", gaps.get("g2", 0), tmpl.WS_GRAMMAR)
    if gaps.get("cg2"):
        T.lit(gaps["cg2"])
    T.mark("after_paren")
    if target is not None:
        T.lit("target:", mark="target")
        T.hole("g3", gaps.get("g3", 1), tmpl.WS_GRAMMAR)
        T.lit('"')
        T.hole("tgt", target, MSG_CHARS, mark="tgt")
        T.lit('"')
        T.lit(",")
        T.hole("g4", gaps.get("g4", 1), tmpl.WS_GRAMMAR)
        if gaps.get("cg4"):
            T.lit(gaps["cg4"])
        T.mark("after_target")
    if kvs:
        T.mark("kvs")
        for i, kv in enumerate(kvs):
            if i:
                T.lit(",")
                T.hole("gk%d" % i, gaps.get("gk", 1), tmpl.WS_GRAMMAR)
            T.lit(kv, mark="kv%d" % i)
        T.lit(";")
        T.hole("g5", gaps.get("g5", 1), tmpl.WS_GRAMMAR)
    if gaps.get("cg5"):
        T.lit(gaps["cg5"])
    T.lit('"', mark="quote")
    T.hole("msg", msg_len, MSG_CHARS, mark="msg")
    T.lit('"', mark="endquote")
    T.tail("rest", tail_len)
    return T


def prefix_is_code(t, T):
    """what precedes the statement is ordinary code that ends at a token boundary as far as the macro
    name is concerned: the character just before the name is not part of an identifier or path"""
    start, length, _ = T.holes["pre"]
    cons = []
    if length:
        last = start + length - 1
        cons.append(Not(t.in_set(last, A.XID_CONTINUE)))
        cons.append(Not(t.is_code(last, ord(":"))))
        cons.append(Not(t.is_code(last, ord("!"))))
    # the prefix does not open a macro invocation of its own (`outer!(k = info!(..))` nests the statement in
    # another macro's argument list, which the scan treats as that macro's key-values): no `!` in the prefix
    for i in range(start, start + length):
        cons.append(Not(t.is_code(i, ord("!"))))
    return cons


def c10_templates(src, structured, quick=True, timeout=300):
    out = []
    dirs = None
    names = ["info", "log::info"]
    shapes = []
    gapsets = ([{}, {"g0": 1, "g1": 1, "g2": 1}, {"cg5": "/* c */ ", "cg4": "// t\n"}] if quick else
               [{}, {"g0": 1}, {"g1": 1}, {"g2": 2}, {"g0": 1, "g1": 1, "g2": 1, "g3": 2, "g4": 2, "g5": 2},
                {"cg5": "/* c */ ", "cg4": "// t\n"}, {"g2": 1, "cg5": "// c\n", "cg4": "/* t */"}])
    kvsets = ([[], ["k = 1"], ["k", "l:? = x"], ["e:?", "p:%"]] if quick else
              [[], ["k = 1"], ["k"], ["k:% = v", "l"], ["a = \"x;y\"", "b:debug = c"], ["a", "b", "c = 3"], ["e:?"],
               ["d:debug", "s:display", "x:err"], ["v:sval = w", "j:serde"]])
    targets = [None, 2] if quick else [None, 0, 3]
    for name in names:
        for gaps in gapsets:
            for target in targets:
                for kvs in kvsets:
                    shapes.append((name, gaps, target, kvs))
    msg_len = 4 if quick else 6
    pre_len = 3 if quick else 5
    for idx, (name, gaps, target, kvs) in enumerate(shapes):
        if not mine(idx):
            continue
        tag = "c10s%d" % idx if structured else "c10u%d" % idx
        T = canonical_template(name, pre_len, gaps, target, kvs, msg_len, 2, tag)
        t, cons = T.build()
        cons += tmpl.string_body_ok(t, T.marks["msg"], msg_len)
        if target:
            cons += tmpl.string_body_ok(t, T.marks["tgt"], target)
        cons += prefix_is_code(t, T)
        cons += no_directive(t)
        fm = model.FileModel(src, t, max_kvps=4)
        p0 = T.marks["name"]
        desc = "%s%s%s%s" % (name, " gaps" + str(sorted(gaps.items())) if gaps else "", " target" if target is not None else "",
                             " kvs=" + ",".join(kvs) if kvs else "")
        bound = ("template `<%d-char code prefix>%s!(%s%s\"<%d-char message>\"<rest>` with symbolic prefix, "
                 "whitespace gaps, target and message text" % (pre_len, name, "target: \"..\", " if target is not None else "",
                                                                "; ".join(kvs) + "; " if kvs else "", msg_len))
        if p0 not in fm.found:
            out.append({"name": "c10-%s-%d" % ("structured" if structured else "plain", idx), "verdict": "violated",
                        "seconds": 0.0, "bound": bound, "witness": {"text": solve.any_instance(t, cons), "shape": desc,
                        "why": "no instance of the template is recognised at the macro name"}, "twin": None, "note": "",
                        "expect": {"kind": "entry_at", "pos": T.marks["msg"], "structured": structured, "macros": INFO}})
            continue
        e = model.SymEntry(fm, p0, INFO, structured, dirs)
        # expected placement, phrased from the property
        if not structured:
            expect_pos = T.marks["msg"]
        elif target is not None:
            expect_pos = T.marks["after_target"]
        else:
            expect_pos = T.marks["paren"] + 1
        placed = e.pos.get(expect_pos, False)
        lo_pos = hi_pos = expect_pos
        if structured:
            # "as the first key-value": anywhere in the blank gap between the bracket (or the target's comma) and the
            # first existing argument is acceptable
            # between the opening bracket (or the comma that ends the target) and the first existing argument
            # there is nothing but blanks and comments
            first_arg = T.marks["kvs"] if kvs else T.marks["quote"]
            if target is not None:
                lo_pos = T.marks["after_target"] - gaps.get("g4", 1) - len(gaps.get("cg4", ""))
            else:
                lo_pos = T.marks["paren"] + 1
            hi_pos = first_arg
            placed = Or(*[e.pos.get(q, False) for q in range(lo_pos, hi_pos + 1)])
        # message starting with a valid token counts as referenced: exclude those instances (C12 handles them)
        if not structured:
            good = And(e.considered, Or(e.has_ref, placed))
        else:
            good = And(e.considered, e.is_new, placed, e.others if kvs else Not(e.others))
        goal = Not(good)
        out.append(run_query("c10-%s-%d" % ("structured" if structured else "plain", idx), t, cons, goal, bound, timeout,
                             extra={"shape": desc, "structured": structured,
                                    "expect": {"kind": "entry_at", "pos": expect_pos, "pos_lo": lo_pos, "pos_hi": hi_pos,
                                               "structured": structured, "macros": INFO,
                                               "entry_kind": "StructuredNew" if structured else "String",
                                               "token7": (src.kv_prefix_format.replace("{}", src.ref_key) + "7" +
                                                          (src.kv_suffix_others if kvs else src.kv_suffix_alone)) if structured else None}}))
    return out


# ================================================================================================
# helpers for numbers and tokens
# ================================================================================================
DOCUMENTED_REGEX = r"\[ref: ([0-9]{1,10})\]"
DOCUMENTED_TOKEN = "[ref: {}] "
DOCUMENTED_KV = ("ref = {}", "; ", ", ")


def digit_hole(T, name, k, mark=None):
    T.hole(name, k, A.ASCII_DIGIT, mark=mark)


def digits_value(t, start, k):
    return zsum([(z3.BV2Int(t.c[start + i]) - 48) * (10 ** (k - 1 - i)) for i in range(k)])


def canonical_number(t, start, k):
    """the k digits at `start` are the decimal form of some id in 1..=u32::MAX (no leading zero)"""
    v = digits_value(t, start, k)
    return [Not(t.is_code(start, ord("0"))), v >= 1, v <= model.U32_MAX], v


# ================================================================================================
# C12: the reference-present rule, on message texts
# ================================================================================================
def c12_rule(src, m=14, timeout=300):
    out = []
    t = peg.Text.symbolic(m, "m")
    base = list(t.well_formed())
    fm = model.FileModel.__new__(model.FileModel)  # string-level only: no grammar involved
    fm.src, fm.t, fm.n = src, t, m
    import rx
    fm.refsearch = rx.Search(src.ref_regex, t)
    # whole text = the message literal's content: enumerate its length
    spec_all = False
    got_all = False
    lens = []
    for L in range(0, m + 1):
        is_len = t.length_is(L)
        sp = model.Span({(0, L): True})
        res, some = fm.extract_reference(sp)
        # specification, written from the property text
        spec = False
        pre = A.encode("[ref: ")
        for k in range(1, 11):
            if len(pre) + k + 1 > L:
                break
            head = And(*[t.is_code(i, c) for i, c in enumerate(pre)])
            digs = And(*[t.in_set(len(pre) + i, A.ASCII_DIGIT) for i in range(k)])
            close = t.is_code(len(pre) + k, ord("]"))
            val = digits_value(t, len(pre), k)
            spec = Or(spec, And(head, digs, close, val <= model.U32_MAX))
        lens.append(And(is_len, z3.Xor(some if some is not False else z3.BoolVal(False),
                                       spec if spec is not False else z3.BoolVal(False))))
        got_all = Or(got_all, And(is_len, some))
    out.append(run_query("c12-rule-equals-spec", t, base, Or(*lens),
                         "every message text of <= %d characters over the alphabet (incl. non-ASCII digit U+0660)" % m,
                         timeout, twin_goal=got_all, extra={"regex": src.ref_regex, "expect": {"kind": "rule"}}))
    return out


def c12_token(src, tail=3, timeout=300, ks=(1, 2, 9, 10)):
    """the token breadlog inserts satisfies the rule and both regexes read the assigned number back"""
    import rx
    out = []
    pre, post = src.token(None, False, False)
    for k in ks:
        T = tmpl.Template("tok%d" % k)
        T.chars.extend(pre)
        T.marks["d"] = len(T.chars)
        digit_hole(T, "d", k)
        T.chars.extend(post)
        T.tail("rest", tail)
        t, cons = T.build()
        ncons, n = canonical_number(t, T.marks["d"], k)
        cons += ncons
        fm = model.FileModel.__new__(model.FileModel)
        fm.src, fm.t, fm.n = src, t, t.n
        fm.refsearch = rx.Search(src.ref_regex, t)
        good = False
        for L in range(len(pre) + k + len(post), t.n):
            res, some = fm.extract_reference(model.Span({(0, L): t.length_is(L)}))
            for cond, val, dspan in res:
                good = Or(good, And(cond, val == n, dspan == (T.marks["d"], T.marks["d"] + k)))
        # the documented (unanchored) extraction regex
        doc = rx.Search(DOCUMENTED_REGEX, t)
        docgood = False
        for L in range(len(pre) + k + len(post), t.n):
            chosen, matched = doc.first_match(0, L)
            for (s, e, cc, caps) in chosen:
                if caps.get(1) == (T.marks["d"], T.marks["d"] + k):
                    docgood = Or(docgood, And(t.length_is(L), cc))
        out.append(run_query("c12-token-roundtrip-%d-digits" % k, t, cons, Not(And(good, docgood)),
                             "every id with %d decimal digits in 1..=4294967295, token followed by <= %d arbitrary characters" % (k, tail),
                             timeout, extra={"token_format": src.token_format,
                                             "expect": {"kind": "token", "digits_at": T.marks["d"], "ndigits": k}}))
    return out


# ================================================================================================
# C13: structured mode, existing / unusable `ref` key-values
# ================================================================================================
def c13_existing(src, quick=True, timeout=300):
    out = []
    others_sets = [([], []), (["k = 1"], []), ([], ["k = 1"]), (["a", "b:? = c"], ["d = \"x;y\""])]
    if not quick:
        others_sets += [(["a = 1", "b", "c:% = d"], []), ([], ["a", "b", "c"]), (["a = \"p,q\""], ["z:debug = w"])]
    ks = (1, 10) if quick else (1, 2, 5, 10)
    gapvariants = [0, 1] if quick else [0, 1, 2]
    idx = 0
    for before, after in others_sets:
        for target in (None, 2):
            for k in ks:
                for gap in gapvariants:
                  for refmod in (("", ":%") if gap == 0 and k == ks[0] else ("",)):
                    idx += 1
                    if not mine(idx):
                        continue
                    T = tmpl.Template("c13e%d" % idx)
                    T.hole("pre", 2, tmpl.NO_QUOTE_SLASH)
                    T.lit("info", mark="name").lit("!(")
                    if target is not None:
                        T.lit('target: "').hole("tgt", target, MSG_CHARS, mark="tgt").lit('", ')
                    for kv in before:
                        T.lit(kv + ", ")
                    T.lit("ref" + refmod).hole("ge", gap, tmpl.WS_PLAIN).lit("=").hole("gv", gap, tmpl.WS_PLAIN)
                    T.mark("val")
                    digit_hole(T, "d", k)
                    T.hole("gs", gap, tmpl.WS_PLAIN)
                    for kv in after:
                        T.lit(", " + kv)
                    T.lit('; "').hole("msg", 3, MSG_CHARS, mark="msg").lit('"').tail("rest", 2)
                    t, cons = T.build()
                    cons += tmpl.string_body_ok(t, T.marks["msg"], 3) + prefix_is_code(t, T) + no_directive(t)
                    if target:
                        cons += tmpl.string_body_ok(t, T.marks["tgt"], target)
                    v = digits_value(t, T.marks["val"], k)
                    cons.append(v <= model.U32_MAX)
                    fm = model.FileModel(src, t, max_kvps=len(before) + len(after) + 2)
                    p0 = T.marks["name"]
                    desc = "before=%s after=%s target=%s digits=%d gap=%d ref%s" % (before, after, target is not None, k, gap, refmod)
                    name = "c13-existing-%d" % idx
                    bound = "template info!([target,] %s ref<gap>=<gap><%d digits><gap> %s; \"msg\") value <= u32::MAX" % (
                        ", ".join(before), k, ", ".join(after))
                    if p0 not in fm.found:
                        out.append({"name": name, "verdict": "violated", "seconds": 0.0, "bound": bound, "twin": None, "note": "",
                                    "witness": {"text": None, "why": "statement not recognised", "shape": desc}})
                        continue
                    e = model.SymEntry(fm, p0, INFO, True, None)
                    good = False
                    for cond, dspan, val in e.ref_spans:
                        good = Or(good, And(cond, val == v))
                    good = And(e.considered, e.is_pre, good, Not(e.needs_id), e.pos.get(T.marks["val"], False))
                    out.append(run_query(name, t, cons, Not(good), bound, timeout,
                                         extra={"shape": desc, "expect": {"kind": "existing_ref", "pos": T.marks["val"], "digits": k,
                                                                          "structured": True, "macros": INFO}}))
    return out


def c13_unusable(src, quick=True, timeout=300):
    """`ref` whose value is not an unsigned integer literal: untouched, unusable, never a second ref"""
    out = []
    idx = 0
    VAL_START = frozenset(c for c in A.ALL_CODES if A.is_xid_start(A.char_of(c)) or c == ord("_"))
    VAL_REST = frozenset(c for c in A.ALL_CODES if A.is_xid_continue(A.char_of(c)) or c in (ord("."), ord("(")) or c == ord(")"))
    for before in ([], ["k = 1"]):
        for after in ([], ["z"]):
            for vlen in ((1, 3) if quick else (1, 2, 4)):
                idx += 1
                if not mine(idx):
                    continue
                T = tmpl.Template("c13u%d" % idx)
                T.hole("pre", 2, tmpl.NO_QUOTE_SLASH)
                T.lit("info", mark="name").lit("!(")
                for kv in before:
                    T.lit(kv + ", ")
                T.lit("ref = ").hole("v0", 1, VAL_START, mark="val")
                T.hole("v1", vlen - 1, VAL_REST)
                for kv in after:
                    T.lit(", " + kv)
                T.lit('; "').hole("msg", 3, MSG_CHARS, mark="msg").lit('"').tail("rest", 2)
                t, cons = T.build()
                cons += tmpl.string_body_ok(t, T.marks["msg"], 3) + prefix_is_code(t, T) + no_directive(t)
                # the value is a Rust expression: its brackets match (`f()`, not `f(`)
                cons += tmpl.brackets_balanced(t, T.marks["val"], vlen)
                fm = model.FileModel(src, t, max_kvps=4)
                p0 = T.marks["name"]
                name = "c13-unusable-%d" % idx
                bound = "template info!(%s ref = <identifier-like value of %d chars> %s; \"msg\")" % (", ".join(before), vlen, ", ".join(after))
                if p0 not in fm.found:
                    out.append({"name": name, "verdict": "violated", "seconds": 0.0, "bound": bound, "twin": None, "note": "",
                                "witness": {"text": None, "why": "statement not recognised"}})
                    continue
                e = model.SymEntry(fm, p0, INFO, True, None)
                good = And(e.considered, e.unusable, Not(e.needs_id), Not(e.is_new))
                out.append(run_query(name, t, cons, Not(good), bound, timeout,
                                     extra={"expect": {"kind": "unusable_ref", "pos": T.marks["val"], "structured": True, "macros": INFO}}))
    # digits that overflow u32: also unusable
    for k, lead in ((10, "5"), (11, "1")):
        idx += 1
        T = tmpl.Template("c13o%d" % idx)
        T.lit("info", mark="name").lit("!(ref = ").lit(lead, mark="val")
        digit_hole(T, "d", k - 1)
        T.lit('; "m")')
        t, cons = T.build()
        fm = model.FileModel(src, t, max_kvps=3)
        e = model.SymEntry(fm, 0, INFO, True, None)
        good = And(e.considered, e.unusable, Not(e.needs_id), Not(e.is_new))
        out.append(run_query("c13-overflow-%d" % k, t, cons, Not(good),
                             "ref = %s followed by %d arbitrary digits (> u32::MAX)" % (lead, k - 1), timeout,
                             extra={"expect": {"kind": "unusable_ref", "pos": T.marks["val"], "structured": True, "macros": INFO}}))
    return out


# ================================================================================================
# C06/C14: what find() reports for one statement does not depend on the statements before it
# (two statements in a row; the first one carries what the second must not inherit: key-values,
# a no-kvp directive, an existing reference, a target)
# ================================================================================================
def c06_sequences(src, quick=True, timeout=300):
    out = []
    dirs = directive.Directives()
    nok = src.nokvp_text
    firsts = [("kv", "", "k = 1; "), ("nokvp-kv", "// " + nok + "\n", "k = 1, l = 2; "), ("ref", "", "ref = 5; "),
              ("ref-kv", "", "k = 1, ref = 5; "), ("target-kv", "", 'target: "t", k = 1; '), ("plain", "", "")]
    seconds = [("plain", ""), ("kv", "z = 2; ")]
    if not quick:
        firsts += [("nokvp-ref", "/* " + nok + " */\n", "ref = 5; "), ("ignore-kv", "// " + src.ignore_text + "\n", "k = 1; ")]
        seconds += [("target", 'target: "u", ')]
    idx = 0
    for structured in (True, False):
        for fname, lead, fargs in firsts:
            for sname, sargs in seconds:
                idx += 1
                if not mine(idx):
                    continue
                T = tmpl.Template("c06q%d" % idx)
                T.lit(lead)
                T.lit("info", mark="s1").lit("!(", mark="s1paren").lit(fargs).lit('"', mark="s1quote").hole("m1", 2, MSG_CHARS, mark="s1msg").lit('");\n')
                T.lit("info", mark="s2").lit("!(", mark="s2paren").lit(sargs).lit('"', mark="s2quote").hole("m2", 2, MSG_CHARS, mark="s2msg").lit('");\n')
                t, cons = T.build()
                cons += tmpl.string_body_ok(t, T.marks["s1msg"], 2) + tmpl.string_body_ok(t, T.marks["s2msg"], 2)
                fm = model.FileModel(src, t, max_kvps=4)
                e1 = model.SymEntry(fm, T.marks["s1"], INFO, structured, dirs)
                e2 = model.SymEntry(fm, T.marks["s2"], INFO, structured, dirs)
                name = "c06-sequence-%s-%s-then-%s" % ("structured" if structured else "plain", fname, sname)
                bound = "two statements in a row: `%sinfo!(%s\"..\")` then `info!(%s\"..\")`, symbolic message text" % (lead.replace("\n", "\\n"), fargs, sargs)
                # what the second statement has to look like, whatever came before it
                kv_tok = lambda others: src.kv_prefix_format.replace("{}", src.ref_key) + "7" + (src.kv_suffix_others if others else src.kv_suffix_alone)
                str_tok = src.token_format.replace("{}", "7") if hasattr(src, "token_format") else None
                positions, tokens, kinds = [], [], []
                ignored1 = fname.startswith("ignore")
                if not ignored1:
                    if structured and not fname.startswith("nokvp"):
                        if "ref" in fname:
                            # existing reference: reported at its value, nothing to insert
                            positions.append(T.marks["s1paren"] + 2 + fargs.index("ref = ") + len("ref = "))
                            tokens.append(None)
                            kinds.append("StructuredPreExisting")
                        else:
                            positions.append(T.marks["s1paren"] + 2 + (len('target: "t", ') if fname.startswith("target") else 0))
                            tokens.append(kv_tok(bool(fargs.replace('target: "t", ', ""))))
                            kinds.append("StructuredNew")
                    else:
                        positions.append(T.marks["s1msg"])
                        tokens.append(None)
                        kinds.append("String")
                if structured:
                    positions.append(T.marks["s2paren"] + 2 + (len('target: "u", ') if sname == "target" else 0))
                    tokens.append(kv_tok(sname == "kv"))
                    kinds.append("StructuredNew")
                    good2 = And(e2.considered, e2.is_new, e2.others if sname == "kv" else Not(e2.others))
                else:
                    positions.append(T.marks["s2msg"])
                    tokens.append(None)
                    kinds.append("String")
                    good2 = And(e2.considered, e2.is_string)
                good1 = Not(e1.considered) if ignored1 else e1.considered
                out.append(run_query(name, t, cons, Not(And(good1, good2)), bound, timeout,
                                     extra={"expect": {"kind": "entries_exact", "structured": structured, "macros": INFO,
                                                       "positions": positions, "tokens": tokens, "kinds": kinds}}))
    return out


# ================================================================================================
# C06: every insertion round-trips (templated): rewrite the statement with the token breadlog
# inserts and parse the result again
# ================================================================================================
def c06_roundtrip(src, structured, quick=True, timeout=300):
    out = []
    shapes = []
    kvsets = [[], ["k = 1"]] if quick else [[], ["k = 1"], ["k", "l:? = x"], ["a = \"x;y\"", "b"]]
    for name in (["info"] if quick else ["info", "log::info"]):
        for target in (None, 2):
            for kvs in kvsets:
                for k in ((1, 10) if quick else (1, 3, 10)):
                    shapes.append((name, target, kvs, k))
    msg_len = 3 if quick else 5
    for idx, (name, target, kvs, k) in enumerate(shapes):
        if not mine(idx):
            continue
        tag = "c06%s%d" % ("s" if structured else "u", idx)
        T = canonical_template(name, 2, {}, target, kvs, msg_len, 2, tag)
        t, cons = T.build()
        cons += tmpl.string_body_ok(t, T.marks["msg"], msg_len)
        if target:
            cons += tmpl.string_body_ok(t, T.marks["tgt"], target)
        cons += prefix_is_code(t, T) + no_directive(t)
        fm = model.FileModel(src, t, max_kvps=4)
        p0 = T.marks["name"]
        qname = "c06-roundtrip-%s-%d" % ("structured" if structured else "plain", idx)
        bound = "template %s!(%s%s\"<%d chars>\") rewritten with an id of %d digits" % (
            name, "target, " if target is not None else "", "; ".join(kvs) + "; " if kvs else "", msg_len, k)
        if p0 not in fm.found:
            out.append({"name": qname, "verdict": "violated", "seconds": 0.0, "bound": bound, "twin": None, "note": "",
                        "witness": {"text": None, "why": "statement not recognised"}})
            continue
        e = model.SymEntry(fm, p0, INFO, structured, None)
        # where C10 says the token goes (and c10-* proves it does)
        if not structured:
            pos = T.marks["msg"]
        elif target is not None:
            pos = T.marks["after_target"]
        else:
            pos = T.marks["paren"] + 1
        pre, post = src.token(None, structured, bool(kvs))
        digits = [z3.BitVec("%s_id_%d" % (tag, i), 8) for i in range(k)]
        out_chars = list(t.c[:pos]) + list(pre) + digits + list(post) + list(t.c[pos:])
        t2 = peg.Text(out_chars)
        dcons = [t2.in_set(pos + len(pre) + i, A.ASCII_DIGIT) for i in range(k)]
        ncons, n = canonical_number(t2, pos + len(pre), k)
        fm2 = model.FileModel(src, t2, max_kvps=5)
        if p0 not in fm2.found:
            out.append({"name": qname, "verdict": "violated", "seconds": 0.0, "bound": bound, "twin": None, "note": "",
                        "witness": {"text": None, "why": "rewritten statement is never recognised"}})
            continue
        e2 = model.SymEntry(fm2, p0, INFO, structured, None)
        back = False
        for cond, dspan, val in e2.ref_spans:
            back = Or(back, And(cond, val == n))
        good = And(e2.considered, back, Not(e2.needs_id))
        pre_cond = And(e.needs_id, e.pos.get(pos, False))
        res = run_query(qname, t2, cons + dcons + ncons + [pre_cond], Not(good), bound, timeout,
                        extra={"expect": {"kind": "reads_back", "digits_at": pos + len(pre), "ndigits": k, "structured": structured,
                                          "macros": INFO}})
        out.append(res)
    return out


# ================================================================================================
# C03: insertion points are ordered and inside the file (free-form)
# ================================================================================================
def c03_positions(src, n, structured, timeout=300):
    t = peg.Text.symbolic(n, "p")
    fm = model.FileModel(src, t)
    base = list(t.well_formed()) + no_directive(t)
    names = (("m", "a"),)  # one-letter configured macro so that two statements fit into the bound
    ents = {p: model.SymEntry(fm, p, names, structured, None) for p in sorted(fm.found)}
    viol = []
    some = False
    for p, e in ents.items():
        some = Or(some, e.needs_id)
        for pos, c in e.pos.items():
            # inside the text, after the macro name
            viol.append(And(e.needs_id, c, Or(t.at_end(pos - 1) if pos > 0 else False, pos <= p)))
        for q, f in ents.items():
            if q <= p:
                continue
            for pos1, c1 in e.pos.items():
                for pos2, c2 in f.pos.items():
                    if pos2 <= pos1:
                        viol.append(And(e.needs_id, f.needs_id, c1, c2))
    return [run_query("c03-insert-positions-%s" % ("structured" if structured else "plain"), t, base, Or(*viol),
                      "every text of <= %d characters, configured macro `a` / `m::a`" % n, timeout, twin_goal=some,
                      extra={"expect": {"kind": "ordered", "structured": structured, "macros": names}})]


def c03_literals(src):
    """the token shapes are the three documented ones"""
    ok = (src.token_format == DOCUMENTED_TOKEN and src.kv_prefix_format.replace("{}", src.ref_key) + "{}" == DOCUMENTED_KV[0]
          and src.kv_suffix_alone == DOCUMENTED_KV[1] and src.kv_suffix_others == DOCUMENTED_KV[2])
    return [{"name": "c03-token-literals", "verdict": "holds" if ok else "violated", "seconds": 0.0, "twin": "n/a", "note": "",
             "bound": "format literals read from insertable_reference_string() and find()",
             "witness": None if ok else {"text": None, "why": "token literals are %r %r %r %r" % (
                 src.token_format, src.kv_prefix_format, src.kv_suffix_alone, src.kv_suffix_others)}}]


# ================================================================================================
# C11 (templated): unconfigured names, non-literal invocations, macro text inside string literals
# ================================================================================================
def c11_names(src, structured=False, timeout=300):
    out = []
    XC = A.XID_CONTINUE
    variants = [
        ("suffix", lambda T: T.lit("info", mark="name").hole("x", 1, XC)),
        ("prefix", lambda T: T.hole("x", 1, A.XID_START | {ord("_")}, mark="name").lit("info")),
        ("other-module", lambda T: T.hole("x", 1, A.XID_START | {ord("_")}, mark="name").lit("::info")),
        ("module-prefix", lambda T: T.hole("x", 1, A.XID_START | {ord("_")}, mark="name").lit("log::info")),
        ("module-suffix", lambda T: T.lit("log::info", mark="name").hole("x", 1, XC)),
        ("module-only", lambda T: T.lit("log", mark="name")),
        ("nested-module", lambda T: T.lit("log::", mark="name").hole("x", 1, A.XID_START).lit("::info")),
    ]
    for vi, (vname, build) in enumerate(variants):
        if not mine(vi):
            continue
        T = tmpl.Template("c11n_" + vname.replace("-", "_"))
        T.hole("pre", 2, tmpl.NO_QUOTE_SLASH)
        build(T)
        T.lit('!("').hole("msg", 3, MSG_CHARS, mark="msg").lit('")').tail("rest", 2)
        t, cons = T.build()
        cons += tmpl.string_body_ok(t, T.marks["msg"], 3) + prefix_is_code(t, T) + no_directive(t)
        fm = model.FileModel(src, t)
        # no entry may be produced anywhere inside the statement
        hit = False
        for p in fm.found:
            if p >= T.marks["name"] - 0 and p < T.marks["msg"]:
                e = model.SymEntry(fm, p, INFO, structured, None)
                hit = Or(hit, e.considered)
        out.append(run_query("c11-unconfigured-%s" % vname, t, cons, hit,
                             "template <prefix><name variant %s>!(\"<3 chars>\")" % vname, timeout,
                             extra={"expect": {"kind": "no_entries", "structured": structured, "macros": INFO}}))
    # configured name without a literal message
    ARG = frozenset(c for c in A.ALL_CODES if c not in (ord('"'), ord(";"), 10))
    for alen in (1, 4):
        T = tmpl.Template("c11a%d" % alen)
        T.hole("pre", 2, tmpl.NO_QUOTE_SLASH).lit("info", mark="name").lit("!(").hole("arg", alen, ARG, mark="arg").lit(")")
        T.tail("rest", 3, frozenset(c for c in A.ALL_CODES if c != ord('"')))
        t, cons = T.build()
        cons += prefix_is_code(t, T) + no_directive(t)
        fm = model.FileModel(src, t)
        hit = False
        if T.marks["name"] in fm.found:
            hit = model.SymEntry(fm, T.marks["name"], INFO, structured, None).considered
        out.append(run_query("c11-nonliteral-%d" % alen, t, cons, hit if hit is not False else z3.BoolVal(False),
                             "template info!(<%d chars without quote or ;>) <no quote in the rest>" % alen, timeout,
                             extra={"expect": {"kind": "no_entries", "structured": structured, "macros": INFO}}))
    return out


def c11_strings(src, n_body=10, timeout=300):
    """macro-like text inside an ordinary string literal (quotes escaped)"""
    T = tmpl.Template("c11s")
    T.hole("pre", 2, tmpl.NO_QUOTE_SLASH).lit('"', mark="open").hole("body", n_body, MSG_CHARS, mark="body").lit('"', mark="close")
    T.tail("rest", 5)
    t, cons = T.build()
    cons += tmpl.string_body_ok(t, T.marks["body"], n_body) + no_directive(t)
    fm = model.FileModel(src, t)
    names = (("m", "a"),)
    inside = False
    straddle = False
    close = T.marks["close"]
    for p in fm.found:
        if T.marks["open"] < p < close:
            e = model.SymEntry(fm, p, names, False, None)
            v = fm.view(p)
            # does the statement's own message literal start at the closing quote of the enclosing literal?
            beyond = Or(*[c for (ls, le), c in v.message_lit.d.items() if ls >= close])
            inside = Or(inside, And(e.considered, Not(beyond)))
            straddle = Or(straddle, And(e.considered, beyond))
    anyf = Or(*fm.found.values())
    bound = "<2 chars>\"<%d-char string body, quotes escaped>\"<5 arbitrary chars>, macro `a`" % n_body
    exp = {"kind": "no_entries", "structured": False, "macros": names}
    return [run_query("c11-inside-string-literal", t, cons, inside, bound, timeout, twin_goal=anyf, extra={"expect": exp}),
            run_query("c11-string-literal-straddle", t, cons, straddle, bound, timeout, twin_goal=anyf,
                      extra={"class": "[statement-starts-inside-string-literal]", "expect": exp})]


# ================================================================================================
# C14: directives (templated: concrete line structure, symbolic comment text / case / gaps)
# ================================================================================================
def cased(T, text, name):
    """the directive text with every letter in either case"""
    for i, ch in enumerate(text):
        if ch.isalpha():
            T.hole("%s%d" % (name, i), 1, frozenset([ord(ch.lower()), ord(ch.upper())]))
        else:
            T.lit(ch)


def c14_directives(src, quick=True, timeout=300):
    out = []
    WSNN = frozenset([ord(" "), 9])  # blanks that do not break the line
    ign, nok = src.ignore_text, src.nokvp_text
    dirs = directive.Directives()
    counter = [0]

    def statement(T, mark, kv=False):
        T.lit("info", mark=mark).lit("!(")
        if kv:
            T.lit("k = 1; ")
        T.lit('"').hole(mark + "m", 2, MSG_CHARS, mark=mark + "msg").lit('")')

    def finish(T, marks_msg):
        t, cons = T.build()
        for m in marks_msg:
            cons += tmpl.string_body_ok(t, T.marks[m], 2)
        return t, cons

    def case(name, build):
        idx = counter[0]
        counter[0] += 1
        if not mine(idx):
            return
        t, cons, goal, bound, expect = build()
        out.append(run_query(name, t, cons, goal, bound, timeout, extra={"expect": expect}))

    styles = [("line", "//", ""), ("block", "/*", "*/")]
    for sname, op, cl in styles:
        for blank in ((0, 1) if quick else (0, 1, 2)):
            for indent in ((0,) if quick else (0, 2)):
                for structured, gap in ((False, 1), (True, 1)) + (((False, 0), (True, 0)) if blank == 0 and indent == 0 else ()):
                    def build(sname=sname, op=op, cl=cl, blank=blank, indent=indent, structured=structured, gap=gap):
                        T = tmpl.Template("c14a_%s_%d_%d_%d_%d" % (sname, blank, indent, structured, gap))
                        # gap 0: the directive sits tight against the comment markers (`//breadlog:ignore`, `/*breadlog:ignore*/`)
                        T.hole("i0", indent, WSNN).lit(op).hole("g1", gap, WSNN)
                        cased(T, ign, "d")
                        T.hole("g2", gap, WSNN).lit(cl).lit("\n")
                        for b in range(blank):
                            T.hole("b%d" % b, 1, WSNN).lit("\n")
                        T.hole("i1", indent, WSNN)
                        statement(T, "s1")
                        T.lit(" ")
                        statement(T, "s2")   # second statement on the same line: also skipped
                        T.lit("\n")
                        statement(T, "s3")   # next line: not affected
                        t, cons = finish(T, ["s1msg", "s2msg", "s3msg"])
                        fm = model.FileModel(src, t)
                        e1 = model.SymEntry(fm, T.marks["s1"], INFO, structured, dirs)
                        e2 = model.SymEntry(fm, T.marks["s2"], INFO, structured, dirs)
                        e3 = model.SymEntry(fm, T.marks["s3"], INFO, structured, dirs)
                        good = And(Not(e1.considered), Not(e2.considered), e3.considered, e1.ignored, e2.ignored)
                        return t, cons, Not(good), ("`%s <breadlog:ignore in any letter case> %s`, %d blank line(s), indent %d, "
                                                    "two statements on the next line, one after" % (op, cl, blank, indent)), {
                            "kind": "entries_exact", "structured": structured, "macros": INFO,
                            "positions": [T.marks["s3msg"] if not structured else T.marks["s3"] + 6]}
                    case("c14-ignore-applies-%s-b%d-i%d-%s%s" % (sname, blank, indent, "s" if structured else "p", "" if gap else "-tight"), build)

        def build_nokvp(sname=sname, op=op, cl=cl, gap=1):
            T = tmpl.Template("c14b_%s_%d" % (sname, gap))
            T.lit(op).hole("g1", gap, WSNN)
            cased(T, nok, "d")
            T.hole("g2", gap, WSNN).lit(cl).lit("\n")
            statement(T, "s1", kv=True)
            T.lit("\n")
            statement(T, "s2", kv=True)
            t, cons = finish(T, ["s1msg", "s2msg"])
            fm = model.FileModel(src, t)
            e1 = model.SymEntry(fm, T.marks["s1"], INFO, True, dirs)
            e2 = model.SymEntry(fm, T.marks["s2"], INFO, True, dirs)
            good = And(e1.considered, e1.is_string, e1.pos.get(T.marks["s1msg"], False), e2.considered, Not(e2.is_string))
            return t, cons, Not(good), "`%s <breadlog:no-kvp> %s` before a key-value statement, structured mode" % (op, cl), {
                "kind": "entries_exact", "structured": True, "macros": INFO, "positions": [T.marks["s1msg"], T.marks["s2"] + 6]}
        case("c14-nokvp-applies-%s" % sname, build_nokvp)
        case("c14-nokvp-applies-%s-tight" % sname, lambda sname=sname, op=op, cl=cl: build_nokvp(sname, op, cl, 0))

        def build_nokvp_multiline(sname=sname, op=op, cl=cl):
            # the statement's arguments are on later lines; a comment inside the argument list is not a directive for it
            T = tmpl.Template("c14bm_%s" % sname)
            T.lit(op + " " + nok + " " + cl + "\n")
            T.lit("info", mark="s1").lit("!(\n    k = 1;\n    ").lit('"').hole("s1m", 2, MSG_CHARS, mark="s1msg").lit('"\n);\n')
            T.lit("info", mark="s2").lit("!(\n    k = 1;\n    " + op + " " + nok + " " + cl + "\n    ").lit('"').hole("s2m", 2, MSG_CHARS, mark="s2msg").lit('"\n);\n')
            t, cons = finish(T, ["s1msg", "s2msg"])
            fm = model.FileModel(src, t)
            e1 = model.SymEntry(fm, T.marks["s1"], INFO, True, dirs)
            e2 = model.SymEntry(fm, T.marks["s2"], INFO, True, dirs)
            good = And(e1.considered, e1.is_string, e1.pos.get(T.marks["s1msg"], False), e2.considered, Not(e2.is_string))
            return t, cons, Not(good), "`%s <breadlog:no-kvp> %s` before a statement spread over several lines; the same comment inside an argument list" % (op, cl), {
                "kind": "entries_exact", "structured": True, "macros": INFO, "positions": [T.marks["s1msg"], T.marks["s2"] + 6]}
        case("c14-nokvp-multiline-%s" % sname, build_nokvp_multiline)

        for sep in ("foo();", "// x"):
            def build_sep(sname=sname, op=op, cl=cl, sep=sep):
                T = tmpl.Template("c14c_%s_%d" % (sname, len(sep)))
                T.lit(op + " " + ign + " " + cl + "\n").lit(sep + "\n")
                statement(T, "s1")
                t, cons = finish(T, ["s1msg"])
                fm = model.FileModel(src, t)
                e1 = model.SymEntry(fm, T.marks["s1"], INFO, False, dirs)
                return t, cons, Not(e1.considered), "directive, then the line `%s`, then the statement" % sep, {
                    "kind": "entries_exact", "structured": False, "macros": INFO, "positions": [T.marks["s1msg"]]}
            case("c14-separated-%s-%s" % (sname, "code" if sep[0] == "f" else "comment"), build_sep)

        OTHER = frozenset(c for c in A.ALL_CODES if c not in (10, 13, ord("*"), ord("/")) and not A.char_of(c).isspace() and c != 128)
        for where in ("before", "after"):
            def build_other(sname=sname, op=op, cl=cl, where=where):
                T = tmpl.Template("c14d_%s_%s" % (sname, where))
                T.lit(op + " ")
                if where == "before":
                    T.hole("x", 1, OTHER).lit(" ")
                T.lit(ign)
                if where == "after":
                    T.lit(" ").hole("x", 1, OTHER)
                T.lit(" " + cl + "\n")
                statement(T, "s1")
                t, cons = finish(T, ["s1msg"])
                fm = model.FileModel(src, t)
                e1 = model.SymEntry(fm, T.marks["s1"], INFO, False, dirs)
                return t, cons, Not(e1.considered), "comment with one more word %s the directive" % where, {
                    "kind": "entries_exact", "structured": False, "macros": INFO, "positions": [T.marks["s1msg"]]}
            case("c14-other-text-%s-%s" % (sname, where), build_other)

        def build_multibyte(sname=sname, op=op, cl=cl):
            # a configured macro whose name starts with a two-byte character, in column 1
            T = tmpl.Template("c14m_%s" % sname)
            mac = (("m", "\u00e9x"),)
            T.lit(op + " " + ign + " " + cl + "\n")
            T.lit("\u00e9x", mark="s1").lit('!("').hole("s1m", 2, MSG_CHARS, mark="s1msg").lit('")\n')
            T.lit(op + " " + ign + " " + cl + "\nfoo();\n")
            T.lit("\u00e9x", mark="s2").lit('!("').hole("s2m", 2, MSG_CHARS, mark="s2msg").lit('")\n')
            t, cons = finish(T, ["s1msg", "s2msg"])
            fm = model.FileModel(src, t)
            e1 = model.SymEntry(fm, T.marks["s1"], mac, False, dirs)
            e2 = model.SymEntry(fm, T.marks["s2"], mac, False, dirs)
            good = And(e1.ignored, Not(e1.considered), e2.considered)
            return t, cons, Not(good), "macro named with a two-byte first character in column 1: directive directly above / two lines above", {
                "kind": "entries_exact", "structured": False, "macros": mac, "positions": [T.marks["s2msg"]]}
        case("c14-multibyte-name-%s" % sname, build_multibyte)

        def build_after(sname=sname, op=op, cl=cl):
            T = tmpl.Template("c14e_%s" % sname)
            statement(T, "s1")
            T.lit(" " + op + " " + ign + " " + cl + "\n")
            T.lit(op + " " + ign + " " + cl)
            t, cons = finish(T, ["s1msg"])
            fm = model.FileModel(src, t)
            e1 = model.SymEntry(fm, T.marks["s1"], INFO, False, dirs)
            return t, cons, Not(e1.considered), "directive after the statement", {
                "kind": "entries_exact", "structured": False, "macros": INFO, "positions": [T.marks["s1msg"]]}
        case("c14-after-statement-%s" % sname, build_after)
    return out


def c10_multi_config(src, structured=False, timeout=300):
    """several configured macros, two of them sharing a name under different modules: every one of
    them, bare and qualified, is found; the same names under a module that is not configured are not"""
    out = []
    macros = (("log", "info"), ("tracing", "info"), ("tracing::sub", "warn"), ("slog", "error"))
    good_names = ["info", "log::info", "tracing::info", "warn", "tracing::sub::warn", "error", "slog::error"]
    bad_names = ["slog::info", "tracing::warn", "sub::warn", "log::error", "tracing::sub::info"]
    for idx, (name, should) in enumerate([(n, True) for n in good_names] + [(n, False) for n in bad_names]):
        if not mine(idx):
            continue
        T = tmpl.Template("c10m%d" % idx)
        T.hole("pre", 2, tmpl.NO_QUOTE_SLASH).lit(name, mark="name").lit('!("').hole("msg", 3, MSG_CHARS, mark="msg").lit('")').tail("rest", 2)
        t, cons = T.build()
        cons += tmpl.string_body_ok(t, T.marks["msg"], 3) + prefix_is_code(t, T) + no_directive(t)
        fm = model.FileModel(src, t)
        p0 = T.marks["name"]
        e = model.SymEntry(fm, p0, macros, structured, None) if p0 in fm.found else None
        if should:
            goal = Not(e.considered) if e is not None else z3.BoolVal(True)
            exp = {"kind": "entry_at", "pos": T.marks["msg"] if not structured else T.marks["name"] + len(name) + 2,
                   "structured": structured, "macros": macros}
        else:
            hit = False
            for p in fm.found:
                if p0 <= p < T.marks["msg"]:
                    hit = Or(hit, model.SymEntry(fm, p, macros, structured, None).considered)
            goal = hit if hit is not False else z3.BoolVal(False)
            exp = {"kind": "no_entries", "structured": structured, "macros": macros}
        out.append(run_query("c10-multi-config-%s-%s" % ("found" if should else "ignored", name.replace("::", "_")), t, cons, goal,
                             "config with 4 macros (two named info); statement %s!(\"<3 chars>\")" % name, timeout,
                             extra={"expect": exp}))
    return out


# ================================================================================================
# C12 through find(): where in a statement a token counts
# ================================================================================================
def c12_in_statement(src, timeout=300):
    out = []
    cases = [
        ("at-start", lambda T: T.lit('"').mark("tok").lit("[ref: ").hole("d", 2, A.ASCII_DIGIT, mark="dig").lit("] ").hole("m", 2, MSG_CHARS, mark="m").lit('"'), True),
        ("after-blank", lambda T: T.lit('"').hole("b", 1, frozenset([ord(" "), 9])).mark("tok").lit("[ref: ").hole("d", 2, A.ASCII_DIGIT, mark="dig").lit("] ").hole("m", 1, MSG_CHARS, mark="m").lit('"'), False),
        ("after-text", lambda T: T.lit('"').hole("m", 2, frozenset(c for c in MSG_CHARS if c not in (ord('"'), ord("\\")))).mark("tok").lit("[ref: ").hole("d", 2, A.ASCII_DIGIT, mark="dig").lit("]").lit('"'), False),
        ("in-target", lambda T: T.lit('target: "[ref: ').hole("d", 2, A.ASCII_DIGIT, mark="dig").lit(']", "').hole("m", 2, frozenset(c for c in MSG_CHARS if c not in (ord('"'), ord("\\"), ord("[")))).lit('"'), False),
        ("in-key-value", lambda T: T.lit('k = "[ref: ').hole("d", 2, A.ASCII_DIGIT, mark="dig").lit(']"; "').hole("m", 2, frozenset(c for c in MSG_CHARS if c not in (ord('"'), ord("\\"), ord("[")))).lit('"'), False),
        ("second-argument", lambda T: T.lit('"').hole("m", 2, frozenset(c for c in MSG_CHARS if c not in (ord('"'), ord("\\"), ord("[")))).lit('", "[ref: ').hole("d", 2, A.ASCII_DIGIT, mark="dig").lit(']"'), False),
    ]
    for idx, (name, build, should) in enumerate(cases):
        if not mine(idx):
            continue
        T = tmpl.Template("c12s%d" % idx)
        T.hole("pre", 2, tmpl.NO_QUOTE_SLASH).lit("info", mark="name").lit("!(")
        build(T)
        T.lit(")").tail("rest", 2)
        t, cons = T.build()
        cons += prefix_is_code(t, T) + no_directive(t)
        if "m" in T.holes and name in ("at-start", "after-blank"):
            cons += tmpl.string_body_ok(t, T.holes["m"][0], T.holes["m"][1])
        fm = model.FileModel(src, t)
        p0 = T.marks["name"]
        if p0 not in fm.found:
            out.append({"name": "c12-statement-%s" % name, "verdict": "violated", "seconds": 0.0, "twin": None, "note": "",
                        "bound": name, "witness": {"text": solve.any_instance(t, cons), "why": "statement not recognised"},
                        "expect": {"kind": "entry_ref", "structured": False, "macros": INFO, "has_ref": should, "digits_at": T.marks["dig"], "ndigits": 2}})
            continue
        e = model.SymEntry(fm, p0, INFO, False, None)
        v = digits_value(t, T.marks["dig"], 2)
        if should:
            good = False
            for cond, dspan, val in e.ref_spans:
                good = Or(good, And(cond, val == v))
            good = And(e.considered, good, Not(e.needs_id))
        else:
            good = And(e.considered, Not(e.has_ref), e.needs_id)
        out.append(run_query("c12-statement-%s" % name, t, cons, Not(good),
                             "info!(<token %s>) with a 2-digit number and symbolic surrounding text" % name, timeout,
                             extra={"expect": {"kind": "entry_ref", "structured": False, "macros": INFO, "has_ref": should,
                                               "digits_at": T.marks["dig"], "ndigits": 2}}))
    return out


def c10_prefix_literals(src, structured=False, timeout=300):
    """code in front of the statement that contains quote characters without opening a string: char and byte
    literals holding a double quote, lifetimes; the statement after them is still found"""
    out = []
    prefixes = ["'\"' ", "b'\"'; ", "x.push('\"'); ", "'\\\"' ", "fn f<'a>(x: &'a str) { ", "let c = '\\''; "]
    for idx, pre in enumerate(prefixes):
        if not mine(idx):
            continue
        T = tmpl.Template("c10p%d" % idx)
        T.lit(pre).hole("g", 1, tmpl.WS_GRAMMAR).lit("info", mark="name").lit('!("').hole("msg", 3, MSG_CHARS, mark="msg").lit('")').tail("rest", 2)
        t, cons = T.build()
        cons += tmpl.string_body_ok(t, T.marks["msg"], 3) + no_directive(t)
        fm = model.FileModel(src, t)
        p0 = T.marks["name"]
        name = "c10-after-quote-literal-%d" % idx
        bound = "`%s` followed by info!(\"<3 chars>\")" % pre
        exp = {"kind": "entry_at", "pos": T.marks["msg"] if not structured else T.marks["name"] + 6, "structured": structured, "macros": INFO}
        if p0 not in fm.found:
            out.append({"name": name, "verdict": "violated", "seconds": 0.0, "bound": bound, "twin": None, "note": "",
                        "witness": {"text": solve.any_instance(t, cons), "why": "the statement is never recognised after this prefix"},
                        "expect": exp})
            continue
        e = model.SymEntry(fm, p0, INFO, structured, None)
        good = And(e.considered, Or(e.has_ref, e.needs_id))
        out.append(run_query(name, t, cons, Not(good), bound, timeout, extra={"expect": exp}))
    return out


# ================================================================================================
# C06 free-form: any text, one insertion, parse again
# ================================================================================================
def c06_freeform(src, n=10, structured=False, timeout=300):
    """for every text of <= n characters (configured macro `a` / `m::a`) and every statement in it that lacks a
    reference: the text with the token of a one-digit id inserted at the statement's insertion point is parsed
    again; the statement is found at the same place and reads back that id, and every statement found before
    it is still found"""
    out = []
    names = (("m", "a"),)
    t = peg.Text.symbolic(n, "r")
    base = list(t.well_formed()) + no_directive(t)
    fm = model.FileModel(src, t)
    pre, post = src.token(None, structured, False)
    pre2, post2 = src.token(None, structured, True)
    ents = {p: model.SymEntry(fm, p, names, structured, None) for p in sorted(fm.found)}
    digit = z3.BitVec("r_id", 8)
    dcons = [z3.UGE(digit, 49), z3.ULE(digit, 57)]
    idx = 0
    for p, e in ents.items():
        for q, cq in e.pos.items():
            if And(e.needs_id, cq) is False:
                continue
            idx += 1
            if not mine(idx):
                continue
            for others in ((False, True) if structured else (False,)):
                a, b_ = (pre2, post2) if others else (pre, post)
                if structured and And(e.needs_id, cq, e.others if others else Not(e.others)) is False:
                    continue
                out_chars = list(t.c[:q]) + list(a) + [digit] + list(b_) + list(t.c[q:])
                t2 = peg.Text(out_chars)
                fm2 = model.FileModel(src, t2)
                cond = And(e.needs_id, cq, (e.others if others else Not(e.others)) if structured else True)
                if solve.check("feasible", base + dcons + [cond], 60).verdict != "sat":
                    continue  # this combination of statement start and insertion point cannot occur
                if p not in fm2.found:
                    good = False
                else:
                    e2 = model.SymEntry(fm2, p, names, structured, None)
                    back = False
                    for c2, dspan, val in e2.ref_spans:
                        back = Or(back, And(c2, val == z3.BV2Int(digit) - 48))
                    good = And(e2.considered, back, Not(e2.needs_id))
                    # statements found before p are still found, with the same status
                    for p1, e1 in ents.items():
                        if p1 >= p:
                            break
                        if p1 in fm2.found:
                            f2 = model.SymEntry(fm2, p1, names, structured, None)
                            good = And(good, Or(Not(e1.considered), And(f2.considered, f2.needs_id == e1.needs_id
                                                                         if not isinstance(f2.needs_id, bool) and not isinstance(e1.needs_id, bool)
                                                                         else True)))
                        else:
                            good = And(good, Not(e1.considered))
                out.append(run_query("c06-freeform-%s-p%d-q%d%s" % ("structured" if structured else "plain", p, q, "-others" if others else ""),
                                     t2, base + dcons + [cond], Not(good) if good is not False else z3.BoolVal(True),
                                     "every text of <= %d characters; statement at %d, token inserted at %d" % (n, p, q), timeout,
                                     extra={"expect": {"kind": "reads_back", "digits_at": q + len(a), "ndigits": 1, "structured": structured,
                                                       "macros": names}}))
    return out

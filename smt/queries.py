"""Engine S queries.  Every function returns a list of query records:
   {"name", "verdict": holds|violated|inconclusive, "seconds", "bound", "witness", "twin"}
A query asserts the NEGATION of the property over a bounded symbolic text; unsat = holds within the
bound.  Each unsat query has a sat twin (same constraints, goal dropped or weakened) as a vacuity guard."""
import time

import z3

import alphabet as A
import directive
import model
import peg
import solve
import tmpl
from peg import And, Not, Or

QS = frozenset([ord('"'), ord("/"), ord("'")])
INFO = (("log", "info"),)


def no_directive(t):
    """no `g:` / `G:` anywhere: the directive texts cannot occur, so directives are out of the picture"""
    return [Not(And(Or(t.is_code(i, ord("g")), t.is_code(i, ord("G"))), t.is_code(i + 1, ord(":")), Or(*[t.is_code(i + 2, ord(x)) for x in "iInN"])))
            for i in range(t.n - 2)]


def rec(name, res, bound, witness=None, twin=None, extra=None):
    v = {"unsat": "holds", "sat": "violated"}.get(res.verdict, "inconclusive")
    r = {"name": name, "verdict": v, "seconds": round(res.seconds, 3), "bound": bound, "witness": witness,
         "twin": twin, "note": res.note}
    if extra:
        r.update(extra)
    return r


def run_query(name, t, cons, goal, bound, timeout=300, twin_goal=True, cross=False, extra=None):
    """goal = condition describing a violation."""
    res = solve.check(name, cons + [goal], timeout_s=timeout, cross_check=cross)
    witness = None
    if res.verdict == "sat":
        text, codes = solve.text_of_model(res.model, t)
        witness = {"text": text}
    twin = None
    if res.verdict == "unsat":
        tw = solve.check(name + "-twin", cons + ([twin_goal] if twin_goal is not True else []), timeout_s=timeout)
        twin = tw.verdict
        if tw.verdict != "sat":
            res.verdict = "unknown"
            res.note = "vacuity twin is %s" % tw.verdict
    return rec(name, res, bound, witness, twin, extra)


# ================================================================================================
# C11: decoys
# ================================================================================================
def c11_freeform(src, n, timeout=300):
    out = []
    t = peg.Text.symbolic(n, "d")
    fm = model.FileModel(src, t)
    base = list(t.well_formed())
    N = n
    is_ = lambda i, ch: t.is_code(i, ord(ch))
    anyfound = Or(*fm.found.values())
    # (a) line comment running to the end of the text (last line without newline)
    viol = []
    for k in range(N - 1):
        pre = And(*[Not(t.in_set(i, QS)) for i in range(k)])
        open_ = And(is_(k, "/"), is_(k + 1, "/"))
        nonl = And(*[Not(t.is_code(i, 10)) for i in range(k + 2, N)])
        inside = Or(*[c for p, c in fm.found.items() if p >= k])
        viol.append(And(pre, open_, nonl, inside))
    out.append(run_query("c11-line-comment-at-eof", t, base, Or(*viol),
                         "every text of <= %d characters over the alphabet" % n, timeout, twin_goal=anyfound))
    # (b) line comment terminated by a newline, anything after it
    viol = []
    for k in range(N - 1):
        pre = And(*[Not(t.in_set(i, QS)) for i in range(k)])
        open_ = And(is_(k, "/"), is_(k + 1, "/"))
        for e in range(k + 2, N):
            nonl = And(*[Not(t.is_code(i, 10)) for i in range(k + 2, e)])
            inside = Or(*[c for p, c in fm.found.items() if k <= p < e])
            viol.append(And(pre, open_, nonl, t.is_code(e, 10), inside))
    out.append(run_query("c11-line-comment", t, base, Or(*viol),
                         "every text of <= %d characters" % n, timeout, twin_goal=anyfound))
    # (c) block comment with Rust's nesting rule (a comment that is closed before the text ends)
    D = 2
    viol = []
    for k in range(N - 1):
        pre = And(*[Not(t.in_set(i, QS)) for i in range(k)])
        open_ = And(is_(k, "/"), is_(k + 1, "*"))
        # state before position i: (depth, i is the 2nd char of a token, comment already closed)
        cur = {(0, False, False): True}
        inside = {}
        for i in range(k, N + 1):
            inside[i] = Or(*[c for (d, sk, closed), c in cur.items() if not closed])
            if i == N:
                break
            nxt = {}

            def add(key, c):
                if c is not False:
                    nxt[key] = Or(nxt.get(key, False), c)
            for (d, sk, closed), c in cur.items():
                if closed:
                    add((0, False, True), c)
                    continue
                if sk:
                    add((d, False, d == 0), c)
                    continue
                opens = And(is_(i, "/"), is_(i + 1, "*")) if i + 1 < N else False
                closes = And(is_(i, "*"), is_(i + 1, "/")) if (i + 1 < N and d >= 1) else False
                if d + 1 <= D:
                    add((d + 1, True, False), And(c, opens))
                else:
                    add((d, False, False), And(c, opens, False))  # deeper nesting: outside the bound
                add((d - 1, True, False), And(c, closes))
                add((d, False, False), And(c, Not(opens), Not(closes)))
            cur = nxt
        closed_eventually = Or(*[c for (d, sk, closed), c in cur.items() if closed or (sk and d == 0)])
        hit = Or(*[And(c, inside[p]) for p, c in fm.found.items() if p >= k])
        viol.append(And(pre, open_, closed_eventually, hit))
    out.append(run_query("c11-block-comment-nested", t, base, Or(*viol),
                         "every text of <= %d characters; comment nesting depth <= %d" % (n, D), timeout,
                         twin_goal=anyfound))
    return out


# ================================================================================================
# C10 / C13: canonical statements are found and the reference is placed correctly (templated)
# ================================================================================================
MSG_CHARS = frozenset(c for c in A.ALL_CODES if c not in (10, 13))


def canonical_template(name, prefix_len, gaps, target, kvs, msg_len, tail_len, tag):
    """prefix  NAME g0 ! g1 ( g2 [target: "T" g3 , g4] [kvs ; g5] "MSG" rest
    gaps: dict gap-name -> length (whitespace holes); kvs: list of literal key-value texts"""
    T = tmpl.Template(tag)
    T.hole("pre", prefix_len, tmpl.NO_QUOTE_SLASH)
    T.lit(name, mark="name")
    T.hole("g0", gaps.get("g0", 0), tmpl.WS_GRAMMAR)
    T.lit("!")
    T.hole("g1", gaps.get("g1", 0), tmpl.WS_GRAMMAR)
    T.lit("(", mark="paren")
    T.hole("g2", gaps.get("g2", 0), tmpl.WS_GRAMMAR)
    T.mark("after_paren")
    if target is not None:
        T.lit("target:", mark="target")
        T.hole("g3", gaps.get("g3", 1), tmpl.WS_GRAMMAR)
        T.lit('"')
        T.hole("tgt", target, MSG_CHARS, mark="tgt")
        T.lit('"')
        T.lit(",")
        T.hole("g4", gaps.get("g4", 1), tmpl.WS_GRAMMAR)
        T.mark("after_target")
    if kvs:
        T.mark("kvs")
        for i, kv in enumerate(kvs):
            if i:
                T.lit(",")
                T.hole("gk%d" % i, gaps.get("gk", 1), tmpl.WS_GRAMMAR)
            T.lit(kv, mark="kv%d" % i)
        T.lit(";")
        T.hole("g5", gaps.get("g5", 1), tmpl.WS_GRAMMAR)
    T.lit('"', mark="quote")
    T.hole("msg", msg_len, MSG_CHARS, mark="msg")
    T.lit('"', mark="endquote")
    T.tail("rest", tail_len)
    return T


def prefix_is_code(t, T):
    """what precedes the statement is ordinary code that ends at a token boundary as far as the macro
    name is concerned: the character just before the name is not part of an identifier or path"""
    start, length, _ = T.holes["pre"]
    cons = []
    if length:
        last = start + length - 1
        cons.append(Not(t.in_set(last, A.XID_CONTINUE)))
        cons.append(Not(t.is_code(last, ord(":"))))
        cons.append(Not(t.is_code(last, ord("!"))))
    return cons


def c10_templates(src, structured, quick=True, timeout=300):
    out = []
    dirs = None
    names = ["info", "log::info"]
    shapes = []
    gapsets = [{}, {"g0": 1, "g1": 1, "g2": 1}] if quick else [{}, {"g0": 1}, {"g1": 1}, {"g2": 2}, {"g0": 1, "g1": 1, "g2": 1, "g3": 2, "g4": 2, "g5": 2}]
    kvsets = [[], ["k = 1"], ["k", "l:? = x"]] if quick else [[], ["k = 1"], ["k"], ["k:% = v", "l"], ["a = \"x;y\"", "b:debug = c"], ["a", "b", "c = 3"]]
    targets = [None, 2] if quick else [None, 0, 3]
    for name in names:
        for gaps in gapsets:
            for target in targets:
                for kvs in kvsets:
                    shapes.append((name, gaps, target, kvs))
    msg_len = 4 if quick else 6
    pre_len = 3 if quick else 5
    for idx, (name, gaps, target, kvs) in enumerate(shapes):
        tag = "c10s%d" % idx if structured else "c10u%d" % idx
        T = canonical_template(name, pre_len, gaps, target, kvs, msg_len, 2, tag)
        t, cons = T.build()
        cons += tmpl.string_body_ok(t, T.marks["msg"], msg_len)
        if target:
            cons += tmpl.string_body_ok(t, T.marks["tgt"], target)
        cons += prefix_is_code(t, T)
        cons += no_directive(t)
        fm = model.FileModel(src, t, max_kvps=4)
        p0 = T.marks["name"]
        desc = "%s%s%s%s" % (name, " gaps" + str(sorted(gaps.items())) if gaps else "", " target" if target is not None else "",
                             " kvs=" + ",".join(kvs) if kvs else "")
        bound = ("template `<%d-char code prefix>%s!(%s%s\"<%d-char message>\"<rest>` with symbolic prefix, "
                 "whitespace gaps, target and message text" % (pre_len, name, "target: \"..\", " if target is not None else "",
                                                                "; ".join(kvs) + "; " if kvs else "", msg_len))
        if p0 not in fm.found:
            out.append({"name": "c10-%s-%d" % ("structured" if structured else "plain", idx), "verdict": "violated",
                        "seconds": 0.0, "bound": bound, "witness": {"text": None, "shape": desc,
                        "why": "no instance of the template is recognised at the macro name"}, "twin": None, "note": ""})
            continue
        e = model.SymEntry(fm, p0, INFO, structured, dirs)
        # expected placement, phrased from the property
        if not structured:
            expect_pos = T.marks["msg"]
        elif target is not None:
            expect_pos = T.marks["after_target"]
        else:
            expect_pos = T.marks["after_paren"] if False else T.marks["paren"] + 1
        placed = e.pos.get(expect_pos, False)
        # message starting with a valid token counts as referenced: exclude those instances (C12 handles them)
        if not structured:
            good = And(e.considered, Or(e.has_ref, placed))
        else:
            good = And(e.considered, e.is_new, placed, e.others if kvs else Not(e.others))
        goal = Not(good)
        out.append(run_query("c10-%s-%d" % ("structured" if structured else "plain", idx), t, cons, goal, bound, timeout,
                             extra={"shape": desc, "structured": structured}))
    return out

"""Templates: a bounded string made of concrete literals and symbolic holes with per-hole character
constraints.  Hole lengths are fixed per instance (queries enumerate the lengths they want); a hole
may also be `flex`: its characters may be PAD-free only as a prefix... not supported: the PEG encoding
treats PAD as end of input, so PAD may only be a suffix of the whole text."""
import z3

import alphabet as A
import peg
from peg import And, Not, Or

WS_PLAIN = frozenset([ord(" "), 9, 10, 13])
WS_GRAMMAR = frozenset(c for c in A.ALL_CODES if A.char_of(c) in A.GRAMMAR_WS)
NO_QUOTE_SLASH = frozenset(c for c in A.ALL_CODES if c not in (ord('"'), ord("/"), ord("'"), ord("\\")))
IDENT_CONT = A.XID_CONTINUE
ANYCH = A.ANY


class Template:
    def __init__(self, name=""):
        self.name = name
        self.chars = []
        self.cons = []
        self.marks = {}
        self.holes = {}
        self._k = 0

    def lit(self, s, mark=None):
        if mark:
            self.marks[mark] = len(self.chars)
        codes = A.encode(s)
        assert codes is not None, s
        self.chars.extend(codes)
        return self

    def hole(self, name, length, allowed=ANYCH, mark=None):
        if mark:
            self.marks[mark] = len(self.chars)
        start = len(self.chars)
        vs = []
        for i in range(length):
            v = z3.BitVec("%s_%s_%d" % (self.name, name, i), 8)
            vs.append(v)
            self.chars.append(v)
        self.holes[name] = (start, length, allowed)
        return self

    def mark(self, m):
        self.marks[m] = len(self.chars)
        return self

    def tail(self, name, length, allowed=ANYCH):
        """trailing hole that may be shorter (PAD suffix allowed)"""
        start = len(self.chars)
        for i in range(length):
            self.chars.append(z3.BitVec("%s_%s_%d" % (self.name, name, i), 8))
        self.holes[name] = (start, length, frozenset(allowed) | {A.PAD})
        self._tail = (start, length)
        return self

    def build(self):
        t = peg.Text(self.chars + [A.PAD])
        cons = []
        for name, (start, length, allowed) in self.holes.items():
            for i in range(start, start + length):
                ch = t.c[i]
                if A.PAD in allowed:
                    cons.append(Or(ch == A.PAD, t.in_set(i, frozenset(allowed) - {A.PAD})))
                    if i + 1 < start + length:
                        cons.append(Or(Not(ch == A.PAD), t.c[i + 1] == A.PAD))
                else:
                    cons.append(t.in_set(i, allowed))
        return t, cons + self.cons


def string_body_ok(t, start, length):
    """the hole [start, start+length) is the body of an ordinary Rust string literal that is closed by the
    character following it: every quote is escaped and every backslash is part of a pair `\\\\` or `\\"`"""
    # esc[i] = position i is the second char of an escape pair
    cons = []
    esc_prev = False
    for i in range(start, start + length):
        is_bs = t.is_code(i, ord("\\"))
        is_q = t.is_code(i, ord('"'))
        starts_escape = And(is_bs, Not(esc_prev))
        # a raw quote (not escaped) is not allowed inside the body
        cons.append(Or(Not(is_q), esc_prev))
        # after an escape introducer the next char must be \ or " (we keep to those two escapes)
        if i + 1 < start + length:
            cons.append(Or(Not(starts_escape), t.is_code(i + 1, ord("\\")), t.is_code(i + 1, ord('"'))))
        else:
            cons.append(Not(starts_escape))  # body may not end in the middle of an escape
        esc_prev = starts_escape
    return cons


def brackets_balanced(t, start, length, pairs=(("(", ")"), ("[", "]"), ("{", "}"))):
    """the hole [start, start+length) is bracket-balanced the way a Rust token stream has to be (rustc does
    not even lex a macro argument whose delimiters do not match): per bracket kind every prefix has at least
    as many openers as closers and the totals agree.  (Kinds are tracked separately; the holes this is used
    on are too short - and their alphabets too small - for interleavings like `([)]` to matter.)"""
    import z3

    def ind(b):
        if b is True:
            return z3.IntVal(1)
        if b is False:
            return z3.IntVal(0)
        return z3.If(b, z3.IntVal(1), z3.IntVal(0))

    cons = []
    for op, cl in pairs:
        depth = z3.IntVal(0)
        for i in range(start, start + length):
            depth = depth + ind(t.is_code(i, ord(op))) - ind(t.is_code(i, ord(cl)))
            cons.append(depth >= 0)
        cons.append(depth == 0)
    return [z3.simplify(c) for c in cons]

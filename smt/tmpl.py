"""Templates: a bounded string made of concrete literals and symbolic holes with per-hole character
constraints.  Hole lengths are fixed per instance (queries enumerate the lengths they want); a hole
may also be `flex`: its characters may be PAD-free only as a prefix... not supported: the PEG encoding
treats PAD as end of input, so PAD may only be a suffix of the whole text."""
import z3

import alphabet as A
import peg
from peg import And, Not, Or

WS_PLAIN = frozenset([ord(" "), 9, 10, 13])
WS_GRAMMAR = frozenset(c for c in A.ALL_CODES if A.char_of(c) in A.GRAMMAR_WS)
NO_QUOTE_SLASH = frozenset(c for c in A.ALL_CODES if c not in (ord('"'), ord("/"), ord("'"), ord("\\")))
IDENT_CONT = A.XID_CONTINUE
ANYCH = A.ANY


class Template:
    def __init__(self, name=""):
        self.name = name
        self.chars = []
        self.cons = []
        self.marks = {}
        self.holes = {}
        self._k = 0

    def lit(self, s, mark=None):
        if mark:
            self.marks[mark] = len(self.chars)
        codes = A.encode(s)
        assert codes is not None, s
        self.chars.extend(codes)
        return self

    def hole(self, name, length, allowed=ANYCH, mark=None):
        if mark:
            self.marks[mark] = len(self.chars)
        start = len(self.chars)
        vs = []
        for i in range(length):
            v = z3.BitVec("%s_%s_%d" % (self.name, name, i), 8)
            vs.append(v)
            self.chars.append(v)
        self.holes[name] = (start, length, allowed)
        return self

    def mark(self, m):
        self.marks[m] = len(self.chars)
        return self

    def tail(self, name, length, allowed=ANYCH):
        """trailing hole that may be shorter (PAD suffix allowed)"""
        start = len(self.chars)
        for i in range(length):
            self.chars.append(z3.BitVec("%s_%s_%d" % (self.name, name, i), 8))
        self.holes[name] = (start, length, frozenset(allowed) | {A.PAD})
        self._tail = (start, length)
        return self

    def build(self):
        t = peg.Text(self.chars + [A.PAD])
        cons = []
        for name, (start, length, allowed) in self.holes.items():
            for i in range(start, start + length):
                ch = t.c[i]
                if A.PAD in allowed:
                    cons.append(Or(ch == A.PAD, t.in_set(i, frozenset(allowed) - {A.PAD})))
                    if i + 1 < start + length:
                        cons.append(Or(Not(ch == A.PAD), t.c[i + 1] == A.PAD))
                else:
                    cons.append(t.in_set(i, allowed))
        return t, cons + self.cons


def string_body_ok(t, start, length):
    """the hole [start, start+length) is the body of an ordinary Rust string literal that is closed by the
    character following it: every quote is escaped and every backslash is part of a pair `\\\\` or `\\"`"""
    # esc[i] = position i is the second char of an escape pair
    cons = []
    esc_prev = False
    for i in range(start, start + length):
        is_bs = t.is_code(i, ord("\\"))
        is_q = t.is_code(i, ord('"'))
        starts_escape = And(is_bs, Not(esc_prev))
        # a raw quote (not escaped) is not allowed inside the body
        cons.append(Or(Not(is_q), esc_prev))
        # after an escape introducer the next char must be \ or " (we keep to those two escapes)
        if i + 1 < start + length:
            cons.append(Or(Not(starts_escape), t.is_code(i + 1, ord("\\")), t.is_code(i + 1, ord('"'))))
        else:
            cons.append(Not(starts_escape))  # body may not end in the middle of an escape
        esc_prev = starts_escape
    return cons

"""Symbolic matcher for the subset of regex-crate syntax that breadlog's two literals use
(`^\\[ref: ([0-9]{1,10})\\]` and `\\/\\/(.+)|\\/\\*(.+)\\*\\/`) and their plausible variations:

    regex   := alt ('|' alt)*
    alt     := '^'? item* '$'?
    item    := atom quant?  |  '(' item* ')'          (capture groups may not be quantified or nested)
    atom    := literal | '\\' escape | '.' | '[' class ']'
    quant   := '*' | '+' | '?' | '{m}' | '{m,}' | '{m,n}'      (greedy only)

Semantics = the regex crate's documented leftmost-first (Perl-like) semantics: the match starts at the
leftmost possible position; there, alternatives are tried in order, and a greedy quantifier tries the
longest repetition first.  All candidate paths are enumerated in that priority order with concrete
positions; the chosen path is the first one whose (symbolic) condition holds.
Anything outside the subset raises Unsupported (the check becomes inconclusive)."""
import alphabet as A
from peg import And, Not, Or
from pest import Unsupported


class Item:
    def __init__(self, codes, lo, hi):
        self.codes = codes  # frozenset of codes
        self.lo = lo
        self.hi = hi  # None = unbounded


class Group:
    def __init__(self, index, items):
        self.index = index
        self.items = items


class Alt:
    def __init__(self, anchored_start, anchored_end, items):
        self.anchored_start = anchored_start
        self.anchored_end = anchored_end
        self.items = items


DOT = frozenset(c for c in A.ALL_CODES if c != 10)
DIGIT_UNICODE = frozenset(list(A.ASCII_DIGIT) + [133])
SPACE_UNICODE = frozenset(c for c in A.ALL_CODES if A.char_of(c).isspace() or c == 128)
WORD_UNICODE = frozenset(c for c in A.ALL_CODES if A.is_xid_continue(A.char_of(c)) or c == ord("_"))


def parse(pattern):
    pos = 0
    n = len(pattern)
    group_counter = [0]

    def parse_class():
        nonlocal pos
        # after '['
        neg = False
        if pos < n and pattern[pos] == "^":
            neg = True
            pos += 1
        codes = set()
        first = True
        while pos < n and (pattern[pos] != "]" or first):
            first = False
            c = pattern[pos]
            if c == "\\":
                pos += 1
                e = pattern[pos]
                if e == "d":
                    codes |= DIGIT_UNICODE
                    pos += 1
                    continue
                if e == "s":
                    codes |= SPACE_UNICODE
                    pos += 1
                    continue
                if e == "w":
                    codes |= WORD_UNICODE
                    pos += 1
                    continue
                c = {"n": "\n", "t": "\t", "r": "\r"}.get(e, e)
            pos += 1
            if pos + 1 < n and pattern[pos] == "-" and pattern[pos + 1] != "]":
                hi = pattern[pos + 1]
                pos += 2
                lo_c, hi_c = ord(c), ord(hi)
                if hi_c > 127:
                    raise Unsupported("non-ASCII class range")
                codes |= {k for k in A.ASCII_CODES if lo_c <= k <= hi_c}
            else:
                k = A.code_of(c)
                if k is not None:
                    codes.add(k)
        if pos >= n:
            raise Unsupported("unterminated character class")
        pos += 1
        if neg:
            return frozenset(A.ALL_CODES) - codes
        return frozenset(codes)

    def parse_atom():
        nonlocal pos
        c = pattern[pos]
        if c == "\\":
            e = pattern[pos + 1]
            pos += 2
            if e == "d":
                return DIGIT_UNICODE
            if e == "s":
                return SPACE_UNICODE
            if e == "w":
                return WORD_UNICODE
            if e in "DSWbBAzpPx":
                raise Unsupported("regex escape \\%s" % e)
            ch = {"n": "\n", "t": "\t", "r": "\r"}.get(e, e)
            k = A.code_of(ch)
            return frozenset([k]) if k is not None else frozenset()
        if c == ".":
            pos += 1
            return DOT
        if c == "[":
            pos += 1
            return parse_class()
        if c in "*+?{":
            raise Unsupported("dangling quantifier")
        pos += 1
        k = A.code_of(c)
        return frozenset([k]) if k is not None else frozenset()

    def parse_quant():
        nonlocal pos
        if pos >= n:
            return 1, 1
        c = pattern[pos]
        lo, hi = 1, 1
        if c == "*":
            pos += 1
            lo, hi = 0, None
        elif c == "+":
            pos += 1
            lo, hi = 1, None
        elif c == "?":
            pos += 1
            lo, hi = 0, 1
        elif c == "{":
            j = pattern.find("}", pos)
            body = pattern[pos + 1:j]
            import re as _re
            m = _re.fullmatch(r"(\d+)(,(\d*))?", body)
            if not m:
                # regex crate treats a malformed repetition as an error
                raise Unsupported("repetition %r" % body)
            lo = int(m.group(1))
            hi = lo if m.group(2) is None else (int(m.group(3)) if m.group(3) else None)
            pos = j + 1
        else:
            return 1, 1
        if pos < n and pattern[pos] == "?":
            raise Unsupported("lazy quantifier")
        return lo, hi

    def parse_seqs(in_group):
        """the item sequences the (sub)pattern expands to: an alternation inside a group is distributed
        over what precedes and follows it, keeping the alternatives in priority order"""
        nonlocal pos
        seqs = [[]]
        while pos < n and pattern[pos] not in "|)":
            c = pattern[pos]
            if c == "(":
                if in_group:
                    raise Unsupported("nested group")
                pos += 1
                noncap = False
                if pattern.startswith("?:", pos):
                    noncap = True
                    pos += 2
                gi = 0
                if not noncap:
                    group_counter[0] += 1
                    gi = group_counter[0]
                inner_alts = [parse_seqs(True)]
                while pos < n and pattern[pos] == "|":
                    pos += 1
                    inner_alts.append(parse_seqs(True))
                if pos >= n or pattern[pos] != ")":
                    raise Unsupported("unterminated group")
                pos += 1
                if pos < n and pattern[pos] in "*+?{":
                    raise Unsupported("quantified group")
                flat_inner = [sq for alt in inner_alts for sq in alt]
                if len(seqs) * len(flat_inner) > 16:
                    raise Unsupported("too many alternatives after expansion")
                new_seqs = []
                for sq in seqs:
                    for inner in flat_inner:
                        if gi:
                            new_seqs.append(sq + [Group(gi, inner)])
                        else:
                            new_seqs.append(sq + list(inner))
                seqs = new_seqs
                continue
            if c == "$" or c == "^":
                break
            codes = parse_atom()
            lo, hi = parse_quant()
            seqs = [sq + [Item(codes, lo, hi)] for sq in seqs]
        return seqs

    alts = []
    while True:
        a_start = False
        a_end = False
        if pos < n and pattern[pos] == "^":
            a_start = True
            pos += 1
        seqs = parse_seqs(False)
        if pos < n and pattern[pos] == "$":
            a_end = True
            pos += 1
        if pos < n and pattern[pos] not in "|":
            raise Unsupported("regex syntax at %r" % pattern[pos:])
        for items in seqs:
            alts.append(Alt(a_start, a_end, items))
        if pos < n and pattern[pos] == "|":
            pos += 1
            continue
        break
    return alts, group_counter[0]


def flatten(items):
    """[(Item, group index or 0, is_first_in_group, is_last_in_group)]"""
    out = []
    for it in items:
        if isinstance(it, Group):
            if not it.items:
                out.append((None, it.index, True, True))
            for k, sub in enumerate(it.items):
                out.append((sub, it.index, k == 0, k == len(it.items) - 1))
        else:
            out.append((it, 0, False, False))
    return out


class Search:
    """All candidate match paths of `pattern` on text[lo:hi), in priority order."""

    def __init__(self, pattern, text):
        self.alts, self.ngroups = parse(pattern)
        self.t = text
        self.pattern = pattern

    def _run_cond(self, codes, a, b):
        return And(*[self.t.in_set(k, codes) for k in range(a, b)])

    def _paths(self, flat, idx, pos, hi, caps):
        """yield (end, cond, caps) in priority order for flat[idx:] starting at pos"""
        if idx == len(flat):
            yield pos, True, caps
            return
        it, gi, gfirst, glast = flat[idx]
        ncaps = caps
        if gi and gfirst:
            ncaps = dict(ncaps)
            ncaps[gi] = (pos, None)
        if it is None:
            ncaps = dict(ncaps)
            ncaps[gi] = (pos, pos)
            yield from self._paths(flat, idx + 1, pos, hi, ncaps)
            return
        maxrep = hi - pos if it.hi is None else min(it.hi, hi - pos)
        for rep in range(maxrep, it.lo - 1, -1):
            c = self._run_cond(it.codes, pos, pos + rep)
            if c is False:
                continue
            end = pos + rep
            c2 = ncaps
            if gi and glast:
                c2 = dict(ncaps)
                c2[gi] = (c2[gi][0], end)
            for e, cond, cc in self._paths(flat, idx + 1, end, hi, c2):
                full = And(c, cond)
                if full is not False:
                    yield e, full, cc

    def candidates(self, lo, hi):
        """[(start, end, cond, caps)] in priority order for the slice [lo, hi) (slice boundaries are
        the text boundaries as far as ^ and $ are concerned)"""
        out = []
        for s in range(lo, hi + 1):
            for alt in self.alts:
                if alt.anchored_start and s != lo:
                    continue
                flat = flatten(alt.items)
                for e, cond, caps in self._paths(flat, 0, s, hi, {}):
                    if alt.anchored_end and e != hi:
                        continue
                    out.append((s, e, cond, caps))
        return out

    def first_match(self, lo, hi):
        """[(start, end, chosen_cond, caps)]: chosen_cond = this path matches and no earlier one does.
        Also returns `matched` = some path matches."""
        res = []
        earlier = False
        for s, e, cond, caps in self.candidates(lo, hi):
            chosen = And(cond, Not(earlier))
            if chosen is not False:
                res.append((s, e, chosen, caps))
            earlier = Or(earlier, cond)
            if earlier is True:
                break
        return res, earlier

import sys, time, os
sys.path.insert(0, '/verif/lib')
import z3
import alphabet as A, peg, model, solve
from peg import And, Or, Not

N = int(sys.argv[1]) if len(sys.argv) > 1 else 12
src = model.Sources(os.environ.get('R','/repo'))
t0 = time.time()
text = peg.Text.symbolic(N)
fm = model.FileModel(src, text)
print("encode", round(time.time() - t0, 2), "found positions", len(fm.found))
cons = list(text.well_formed())
# line comment starting at k, everything after it (to the end of the text) has no newline
QUOTE_SLASH = frozenset([ord('"'), ord('/'), ord("'")])
viol = []
for k in range(N - 1):
    pre = And(*[Not(text.in_set(i, QUOTE_SLASH)) for i in range(k)])
    open_ = And(text.is_code(k, ord('/')), text.is_code(k + 1, ord('/')))
    nonl = And(*[Not(text.is_code(i, 10)) for i in range(k + 2, N)])
    inside = Or(*[c for p, c in fm.found.items() if p >= k])
    viol.append(And(pre, open_, nonl, inside))
r = solve.check("c11-line-comment-eof", cons + [Or(*viol)], timeout_s=600)
print(r.verdict, round(r.seconds, 2))
if r.model is not None:
    print(repr(solve.text_of_model(r.model, text)[0]))

"""The bounded-string alphabet of Engine S.

A string is a sequence of *codes* (0..255).  ASCII characters are their own code; every other
character is represented by one member of its class, where the classes are exactly the distinctions
the grammar, the two regexes, `str::lines`, `str::trim`, `to_lowercase` and UTF-8 length can make.
Code 0 is PAD (positions at or beyond the end of the string)."""
import unicodedata

PAD = 0
# code -> (representative char, utf8 length)
NONASCII = {
    128: "\u0085",  # NEL: grammar WHITESPACE, White_Space (trim), 2 bytes
    129: "\u200e",  # LRM: grammar WHITESPACE, not White_Space, 3 bytes
    130: "\u2028",  # LINE SEPARATOR: grammar WHITESPACE, White_Space, 3 bytes
    131: "\u00e9",  # é: XID_Start, XID_Continue, lowercase, 2 bytes
    132: "\u0301",  # combining acute: XID_Continue only, 2 bytes
    133: "\u0660",  # ARABIC-INDIC DIGIT ZERO: XID_Continue, numeric but not ASCII digit, 2 bytes
    134: "\u2192",  # →: none of the classes, 3 bytes
    135: "\U0001f600",  # 😀: none of the classes, 4 bytes
    136: "\u00c9",  # É: XID_Start, uppercase (to_lowercase -> é), 2 bytes
    137: "\u3000",  # IDEOGRAPHIC SPACE: White_Space but not grammar WHITESPACE, 3 bytes
}
ASCII_CODES = [9, 10, 11, 12, 13] + list(range(32, 127))
ALL_CODES = ASCII_CODES + sorted(NONASCII)

GRAMMAR_WS = {"\t", "\n", "\u000b", "\u000c", "\r", " ", "\u0085", "\u200e", "\u200f", "\u2028", "\u2029"}


def char_of(code):
    if code in NONASCII:
        return NONASCII[code]
    return chr(code)


def utf8len(code):
    return len(char_of(code).encode("utf-8"))


def is_xid_start(ch):
    return ch != "_" and ch.isidentifier()


def is_xid_continue(ch):
    return ("a" + ch).isidentifier()


def signature(ch):
    return (len(ch.encode("utf-8")), is_xid_start(ch), is_xid_continue(ch), ch.isspace() or ch in "\u0085",
            ch in GRAMMAR_WS, ch.lower() != ch)


_SIG = {}
for _c in sorted(NONASCII):
    _SIG.setdefault(signature(NONASCII[_c]), _c)


def code_of(ch):
    """Map a real character to its code; None if no representative exists for its class."""
    o = ord(ch)
    if o == 0:
        return None
    if o < 128:
        return o if (o in ASCII_CODES) else None
    for c, rep in NONASCII.items():
        if rep == ch:
            return c
    return _SIG.get(signature(ch))


def encode(text):
    out = []
    for ch in text:
        c = code_of(ch)
        if c is None:
            return None
        out.append(c)
    return out


def decode(codes):
    return "".join(char_of(c) for c in codes if c != PAD)


# ---- character classes as sets of codes ----
def cls(pred):
    return frozenset(c for c in ALL_CODES if pred(char_of(c)))


XID_START = cls(is_xid_start)
XID_CONTINUE = cls(is_xid_continue)
ASCII_DIGIT = frozenset(range(48, 58))
ASCII_ALPHA = frozenset(list(range(65, 91)) + list(range(97, 123)))
ASCII_ALPHANUMERIC = ASCII_DIGIT | ASCII_ALPHA
ANY = frozenset(ALL_CODES)
NEWLINE = frozenset([10])
RUST_WHITE_SPACE = cls(lambda ch: ch.isspace() or ch == "\u0085")  # char::is_whitespace (White_Space)

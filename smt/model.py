"""From parse tree to entries: the find()-contract of DESIGN.md §3.3, evaluated over the symbolic (or
concrete) packrat table, plus everything that is read from /repo's current sources on every run:
the grammar, the two regex literals, the token format literals and the `ref` key name."""
import os
import re

import z3


def zsum(terms):
    """z3.Sum that never builds a one-argument `+` (cvc5 rejects it)"""
    terms = list(terms)
    if not terms:
        return z3.IntVal(0)
    if len(terms) == 1:
        return terms[0]
    return z3.Sum(terms)

import alphabet as A
import peg
import pest
import rx
from peg import And, Not, Or
from pest import Unsupported

REPO = os.environ.get("BLV_REPO", "/repo")
U32_MAX = 4294967295


def _prod(src):
    m = re.search(r"^#\[cfg\(test\)\]\s*\nmod tests|^mod tests\s*\{", src, flags=re.M)
    return src[: m.start()] if m else src


class Sources:
    """Everything Engine S reads from the repository (re-read on every run)."""

    def __init__(self, repo=None):
        repo = repo or REPO
        self.repo = repo
        with open(os.path.join(repo, "src/parser/rust_grammar.pest")) as f:
            self.grammar_text = f.read()
        self.rules, self.order = pest.parse_grammar(self.grammar_text)
        with open(os.path.join(repo, "src/parser/code_parser.rs")) as f:
            cp = _prod(f.read())
        with open(os.path.join(repo, "src/parser/rust_parser.rs")) as f:
            rp = _prod(f.read())
        m = re.search(r"fn extract_reference.*?Regex::new\(r\"((?:[^\"\\]|\\.)*)\"\)", cp, flags=re.S)
        if not m:
            raise Unsupported("reference regex literal not found in code_parser.rs::extract_reference")
        self.ref_regex = m.group(1)
        m = re.search(r"RUST_COMMENT_PATTERN\s*:\s*Regex\s*=\s*Regex::new\(r\"((?:[^\"\\]|\\.)*)\"\)", rp)
        if not m:
            raise Unsupported("comment regex literal not found in rust_parser.rs")
        self.comment_regex = m.group(1)
        m = re.search(r"fn insertable_reference_string.*?format!\(\"((?:[^\"\\]|\\.)*)\",\s*reference_id\)", cp, flags=re.S)
        if not m or m.group(1).count("{}") != 1:
            raise Unsupported("token format literal not found in insertable_reference_string")
        self.token_format = m.group(1)
        m = re.search(r"static ref REF_KVP_KEY: String = String::from\(\"([^\"]*)\"\)", cp)
        if not m:
            raise Unsupported("ref key name not found")
        self.ref_key = m.group(1)
        m = re.search(r"insertion_prefix = Some\(format!\(\"((?:[^\"\\]|\\.)*)\",\s*ref_kvp_key\)\)", rp)
        if not m or m.group(1).count("{}") != 1:
            raise Unsupported("structured prefix format not found in find()")
        self.kv_prefix_format = m.group(1)
        sufs = re.findall(r"insertion_suffix = Some\(\"((?:[^\"\\]|\\.)*)\"\.to_string\(\)\)", rp)
        if len(sufs) != 2:
            raise Unsupported("structured suffix literals not found in find()")
        # first literal is used when total_kvps > 0
        m = re.search(r"if total_kvps > 0\s*\{\s*insertion_suffix = Some\(\"((?:[^\"\\]|\\.)*)\"", rp)
        if not m:
            raise Unsupported("structured suffix selection not recognised in find()")
        self.kv_suffix_others = m.group(1)
        rest = [s for s in sufs if s != self.kv_suffix_others]
        self.kv_suffix_alone = rest[0] if rest else sufs[1]
        m = re.search(r"reference = match span\.as_str\(\)((?:\.trim\(\))?)\.parse::<u32>\(\)", rp)
        if not m:
            raise Unsupported("how find() parses an existing ref value is not recognised")
        self.kv_value_trim = bool(m.group(1))
        dirs = dict(re.findall(r"const (\w+_DIRECTIVE_TEXT): &str = \"([^\"]*)\"", cp))
        self.ignore_text = dirs.get("IGNORE_DIRECTIVE_TEXT")
        self.nokvp_text = dirs.get("NO_KVP_DIRECTIVE_TEXT")
        if self.ignore_text is None or self.nokvp_text is None:
            raise Unsupported("directive texts not found")

    def token(self, n_digits_codes, structured, others):
        """codes of the inserted token with the given decimal digit codes in place of `{}`"""
        if not structured:
            pre, post = self.token_format.split("{}")
        else:
            pre = self.kv_prefix_format.replace("{}", self.ref_key)
            post = self.kv_suffix_others if others else self.kv_suffix_alone
        return A.encode(pre), A.encode(post)


class Span:
    """A symbolic span: {(start, end): cond}"""

    def __init__(self, d=None):
        self.d = d or {}

    def add(self, s, e, c):
        if c is False:
            return
        self.d[(s, e)] = Or(self.d.get((s, e), False), c)

    def present(self):
        return Or(*self.d.values())


def flat_spans(ev):
    out = Span()
    for s, ends in ev["spans"].items():
        for e, c in ends.items():
            out.add(s, e, c)
    return out


class MacroView:
    """Everything find() looks at for the log_macro found at position p."""

    def __init__(self, fm, p, found):
        self.p = p
        self.found = found
        m = fm.m
        events = []
        m.walk(pest.Node("ident", "log_macro"), {p: found}, False, False, events)
        lm = events[0]
        kids = lm["children"]
        self.name = Span()
        self.args = Span()
        self.target = Span()
        self.message_lit = Span()
        self.message = Span()
        self.kvp_args = Span()
        self.kvps = []  # per iteration: (key Span, value Span)
        for ev in kids:
            if ev["rule"] == "macro_name":
                self.name = flat_spans(ev)
            elif ev["rule"] == "macro_args":
                self.args = flat_spans(ev)
                for a in ev["children"]:
                    if a["rule"] == "target_arg":
                        self.target = flat_spans(a)
                    elif a["rule"] == "string_literal":
                        self.message_lit = flat_spans(a)
                        for sv in a["children"]:
                            if sv["rule"] == "string_value":
                                self.message = flat_spans(sv)
                    elif a["rule"] == "kvp_args":
                        self.kvp_args = flat_spans(a)
                        by_iter = {}
                        for kv in a["children"]:
                            it = kv.get("iteration", 0)
                            by_iter.setdefault(it, [Span(), Span()])
                            if kv["rule"] == "kvp_key":
                                by_iter[it][0] = flat_spans(kv)
                            elif kv["rule"] == "kvp_value":
                                by_iter[it][1] = flat_spans(kv)
                        self.kvps = [tuple(by_iter[k]) for k in sorted(by_iter)]


class FileModel:
    def __init__(self, src, text, max_kvps=3):
        self.src = src
        self.t = text
        self.n = text.n
        self.m = peg.Matcher(src.rules, text)
        self.m.descend = frozenset(["log_macro", "macro_args", "kvp_args", "string_literal"])
        self.m.max_iterations = max_kvps + 1
        self._check_file_rule()
        self.attempt = self._attempts()
        lm = pest.Node("ident", "log_macro")
        self.found = {}
        for p, c in self.attempt.items():
            f = And(c, peg.any_of(self.m.match(lm, p, False, False)))
            # alternatives listed before log_macro in the file loop win over it
            for alt in self.before_log_macro:
                f = And(f, Not(peg.any_of(self.m.match(alt, p, False, False))))
            if f is not False:
                self.found[p] = f
        self._views = {}
        self.refsearch = rx.Search(src.ref_regex, text)
        self.commentsearch = rx.Search(src.comment_regex, text)

    def _check_file_rule(self):
        """file = SOI ~ (alt_1 | .. | log_macro | .. | ANY)* ~ EOI ; find() only looks at log_macro tokens"""
        r = self.src.rules.get("file")
        ok = (r is not None and r.expr.kind == "seq" and len(r.expr.a) == 3 and r.expr.a[0].kind == "ident"
              and r.expr.a[0].a == "SOI" and r.expr.a[2].kind == "ident" and r.expr.a[2].a == "EOI"
              and r.expr.a[1].kind == "rep" and r.expr.a[1].b == (0, None))
        if ok:
            inner = r.expr.a[1].a
            alts = inner.a if inner.kind == "choice" else [inner]
            names = [x.a if x.kind == "ident" else None for x in alts]
            ok = "log_macro" in names and names[-1] == "ANY"
        if not ok:
            raise Unsupported("the `file` rule no longer has the shape SOI ~ (.. | log_macro | .. | ANY)* ~ EOI")
        self.item = r.expr.a[1].a
        self.item_alts = alts
        self.before_log_macro = alts[:names.index("log_macro")]

    def _attempts(self):
        """attempt[p]: the file loop tries an item at position p."""
        m = self.m
        att = {}
        for p, c in m.skip(0, False, False).items():
            att[p] = Or(att.get(p, False), c)
        for p in range(0, self.n + 1):
            c = att.get(p, False)
            if c is False:
                continue
            for j, cj in m.match(self.item, p, False, False).items():
                base = And(c, cj)
                if base is False:
                    continue
                for s, cs in m.skip(j, False, False).items():
                    att[s] = Or(att.get(s, False), And(base, cs))
        return {p: c for p, c in att.items() if c is not False}

    def view(self, p):
        v = self._views.get(p)
        if v is None:
            v = MacroView(self, p, self.found[p])
            self._views[p] = v
        return v

    # ------------------------------------------------------------------ text predicates
    def text_equals(self, s, e, literal):
        codes = A.encode(literal)
        if codes is None or e - s != len(codes):
            return False
        return And(*[self.t.is_code(s + k, c) for k, c in enumerate(codes)])

    def name_configured(self, span, macros):
        """macro_of_interest: the whole macro_name text equals `name` or `module::name`."""
        out = False
        for (s, e), c in span.d.items():
            hit = False
            for mod, name in macros:
                hit = Or(hit, self.text_equals(s, e, name), self.text_equals(s, e, mod + "::" + name))
            out = Or(out, And(c, hit))
        return out

    def digits_value_ok(self, s, e, allow_plus=False):
        """(is a u32 literal as str::parse::<u32> sees it, value term)"""
        if e <= s:
            return False, None
        start = s
        plus = False
        digs = list(range(start, e))
        conds = [self.t.in_set(k, A.ASCII_DIGIT) for k in digs]
        alld = And(*conds)
        if alld is False:
            return False, None
        if all(isinstance(self.t.c[k], int) for k in digs):
            val = int("".join(chr(self.t.c[k]) for k in digs))
            return And(alld, val <= U32_MAX), val
        val = zsum([(z3.BV2Int(self.t.c[k]) - 48 if not isinstance(self.t.c[k], int) else self.t.c[k] - 48)
                      * (10 ** (e - 1 - k)) for k in digs])
        return And(alld, val <= U32_MAX), val

    def kv_value_ok(self, s, e):
        """how find() reads an existing `ref` value: [(cond, value)]"""
        if not self.src.kv_value_trim:
            ok, val = self.digits_value_ok(s, e)
            return [] if ok is False else [(ok, val)]
        out = []
        ws = lambda i: self.t.in_set(i, A.RUST_WHITE_SPACE)
        lead = True
        for a in range(s, e):
            if a > s:
                lead = And(lead, ws(a - 1))
                if lead is False:
                    break
            trail = True
            for b in range(e, a, -1):
                if b < e:
                    trail = And(trail, ws(b))
                    if trail is False:
                        break
                c = And(lead, trail, Not(ws(a)), Not(ws(b - 1)))
                if c is False:
                    continue
                ok, val = self.digits_value_ok(a, b)
                c = And(c, ok)
                if c is not False:
                    out.append((c, val))
        return out

    def extract_reference(self, span):
        """LogRefEntry::extract_reference on the message text: [(cond, value)] + `none` condition."""
        results = []
        some = False
        for (s, e), c in span.d.items():
            chosen, matched = self.refsearch.first_match(s, e)
            for (ms, me, cc, caps) in chosen:
                if 1 not in caps or caps[1][1] is None:
                    continue
                ok, val = self.digits_value_ok(caps[1][0], caps[1][1])
                cond = And(c, cc, ok)
                if cond is not False:
                    results.append((cond, val, caps[1]))
                    some = Or(some, cond)
        return results, some

    # ------------------------------------------------------------------ byte offsets
    def byte_offset(self, pos):
        """byte offset of character position pos (concrete int or z3 Int)"""
        if all(isinstance(ch, int) for ch in self.t.c[:pos]):
            return sum(A.utf8len(ch) for ch in self.t.c[:pos] if ch != A.PAD)
        terms = []
        for ch in self.t.c[:pos]:
            if isinstance(ch, int):
                terms.append(A.utf8len(ch))
            else:
                terms.append(z3.If(z3.ULT(ch, 128), 1,
                                   z3.If(z3.Or(ch == 128, ch == 131, ch == 132, ch == 133, ch == 136), 2,
                                         z3.If(ch == 135, 4, 3))))
        return zsum(terms) if terms else 0


def entries_concrete(fm, macros, structured, directives=None):
    """Evaluate the find()-contract on a concrete text: list of dicts comparable with the native runner."""
    out = []
    for p in sorted(fm.found):
        if fm.found[p] is not True:
            continue
        v = fm.view(p)
        if not fm.name_configured(v.name, macros):
            continue
        if directives is not None and directives.applies(fm, fm.src.ignore_text, p):
            continue
        (args_s, _args_e), = [k for k, c in v.args.d.items() if c is True]
        nokvp = directives is not None and directives.applies(fm, fm.src.nokvp_text, args_s)
        if structured and not nokvp:
            kv = []
            for key, val in v.kvps:
                ks = [k for k, c in key.d.items() if c is True]
                vs = [k for k, c in val.d.items() if c is True]
                if ks:
                    kv.append((ks[0], vs[0] if vs else None))
            entry = None
            for (ks, ke), vspan in kv:
                if fm.text_equals(ks, ke, fm.src.ref_key) is True and vspan is not None:
                    oks = [val for ok, val in fm.kv_value_ok(vspan[0], vspan[1]) if ok is True]
                    ok, val = (True, oks[0]) if oks else (False, None)
                    entry = {"pos": fm.byte_offset(vspan[0]), "reference": val if ok is True else None,
                             "kind": "StructuredPreExisting", "charpos": vspan[0]}
                    break
            if entry is None:
                tgt = [k for k, c in v.target.d.items() if c is True]
                if tgt:
                    if v.kvp_args.present() is True:
                        ins = [k for k, c in v.kvp_args.d.items() if c is True][0][0]
                    else:
                        ins = [k for k, c in v.message_lit.d.items() if c is True][0][0]
                else:
                    ins = args_s + 1
                entry = {"pos": fm.byte_offset(ins), "reference": None, "kind": "StructuredNew", "charpos": ins,
                         "others": len(kv) > 0}
            out.append(entry)
        else:
            ms = [k for k, c in v.message.d.items() if c is True]
            if not ms:
                continue
            res, some = fm.extract_reference(v.message)
            ref = None
            for cond, val, _ in res:
                if cond is True:
                    ref = val
            out.append({"pos": fm.byte_offset(ms[0][0]), "reference": ref, "kind": "String", "charpos": ms[0][0]})
    return out


class SymEntry:
    """The entry find() produces for the log_macro found at position p, as conditions."""

    def __init__(self, fm, p, macros, structured, dirs=None):
        v = fm.view(p)
        self.p = p
        self.view = v
        configured = fm.name_configured(v.name, macros)
        ignored = dirs.applies(fm, fm.src.ignore_text, p) if dirs is not None else False
        self.ignored = And(v.found, configured, ignored)
        self.considered = And(v.found, configured, Not(ignored))
        self.configured = And(v.found, configured)
        self.pos = {}
        self.is_string = False
        self.is_pre = False
        self.is_new = False
        self.has_ref = False
        self.ref_spans = []  # (cond, (digit_start, digit_end), value)
        self.others = False
        nokvp = False
        if structured and dirs is not None:
            for (a_s, _a_e), c in v.args.d.items():
                nokvp = Or(nokvp, And(c, dirs.applies(fm, fm.src.nokvp_text, a_s)))
        self.nokvp = nokvp
        as_string = True if not structured else nokvp
        as_struct = False if not structured else Not(nokvp)
        if as_string is not False:
            base = And(self.considered, as_string)
            self.is_string = base
            for (ms, me), c in v.message.d.items():
                cc = And(base, c)
                if cc is not False:
                    self.pos[ms] = Or(self.pos.get(ms, False), cc)
            res, some = fm.extract_reference(v.message)
            for cond, val, dspan in res:
                c2 = And(base, cond)
                if c2 is not False:
                    self.ref_spans.append((c2, dspan, val))
                    self.has_ref = Or(self.has_ref, c2)
        if as_struct is not False:
            base = And(self.considered, as_struct)
            # first key-value whose key is `ref` and which has a value
            earlier = False
            any_kv = False
            for key, val in v.kvps:
                any_kv = Or(any_kv, key.present())
                is_ref = False
                for (ks, ke), kc in key.d.items():
                    is_ref = Or(is_ref, And(kc, fm.text_equals(ks, ke, fm.src.ref_key)))
                hit = And(is_ref, val.present(), Not(earlier))
                if hit is not False:
                    for (vs, ve), vc in val.d.items():
                        c = And(base, hit, vc)
                        if c is False:
                            continue
                        self.pos[vs] = Or(self.pos.get(vs, False), c)
                        self.is_pre = Or(self.is_pre, c)
                        for ok, value in fm.kv_value_ok(vs, ve):
                            c2 = And(c, ok)
                            if c2 is not False:
                                self.ref_spans.append((c2, (vs, ve), value))
                                self.has_ref = Or(self.has_ref, c2)
                earlier = Or(earlier, And(is_ref, val.present()))
            new = And(base, Not(earlier))
            if fm.m.truncated is not False:
                self.truncated = fm.m.truncated
            self.is_new = new
            self.others = And(new, any_kv)
            if new is not False:
                tgt = v.target.present()
                for (a_s, _a_e), c in v.args.d.items():
                    cc = And(new, c, Not(tgt))
                    if cc is not False:
                        self.pos[a_s + 1] = Or(self.pos.get(a_s + 1, False), cc)
                if tgt is not False:
                    kvp_present = v.kvp_args.present()
                    for (ks, _ke), c in v.kvp_args.d.items():
                        cc = And(new, tgt, c)
                        if cc is not False:
                            self.pos[ks] = Or(self.pos.get(ks, False), cc)
                    for (ls, _le), c in v.message_lit.d.items():
                        cc = And(new, tgt, Not(kvp_present), c)
                        if cc is not False:
                            self.pos[ls] = Or(self.pos.get(ls, False), cc)
        self.unusable = And(self.is_pre, Not(self.has_ref))
        self.needs_id = And(self.considered, Not(self.has_ref), Not(self.unusable))
    truncated = False

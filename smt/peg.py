"""Symbolic packrat evaluation of a pest grammar over a bounded string.

The PEG semantics is written once, over a tiny boolean algebra whose values are either Python bools
(concrete input: used to validate this encoder against the real pest-generated parser on every run)
or z3 terms (symbolic input).  `match(expr, i, dyn, gen)` returns {end position: condition}; PEG
matching is deterministic, so at most one end position is true under any assignment.

Implicit WHITESPACE/COMMENT skipping follows pest_generator 2.7 exactly:
  * rule bodies of @/$ rules and of WHITESPACE/COMMENT are generated without skip calls (`gen`=True);
  * all other bodies contain `skip` between sequence items and repetition iterations, and `skip` does
    something only while the dynamic atomicity is NonAtomic (`dyn`=False); @/$ rules (and WHITESPACE/
    COMMENT) switch it to atomic for their callees, `!` rules switch it back;
  * `e*` is `optional(e ~ repeat(sequence(skip ~ e)))`: a skip that is not followed by another `e`
    is undone.
"""
import z3

import alphabet as A
from pest import Node, Unsupported

# ------------------------------------------------------------------------------------------------
# boolean algebra with constant folding (Python bools stay Python bools)
# ------------------------------------------------------------------------------------------------
def And(*xs):
    out = []
    for x in xs:
        if x is False:
            return False
        if x is True:
            continue
        out.append(x)
    if not out:
        return True
    if len(out) == 1:
        return out[0]
    return z3.And(*out)


def Or(*xs):
    out = []
    for x in xs:
        if x is True:
            return True
        if x is False:
            continue
        out.append(x)
    if not out:
        return False
    if len(out) == 1:
        return out[0]
    return z3.Or(*out)


def Not(x):
    if x is True:
        return False
    if x is False:
        return True
    return z3.Not(x)


def any_of(d):
    """d: {pos: cond} -> cond that some entry holds."""
    return Or(*d.values())


BUILTIN = {
    "ANY": A.ANY, "ASCII_DIGIT": A.ASCII_DIGIT, "XID_START": A.XID_START, "XID_CONTINUE": A.XID_CONTINUE,
    "ASCII_ALPHA": A.ASCII_ALPHA, "ASCII_ALPHANUMERIC": A.ASCII_ALPHANUMERIC,
}


class Text:
    """A bounded string: N positions holding concrete codes or z3 8-bit terms; PAD marks the end."""

    def __init__(self, chars):
        self.c = list(chars)
        self.n = len(self.c)
        self._memo = {}

    @staticmethod
    def symbolic(n, prefix="c"):
        return Text([z3.BitVec("%s%d" % (prefix, i), 8) for i in range(n)])

    @staticmethod
    def concrete(codes):
        return Text(list(codes))

    def well_formed(self):
        """Constraints: every symbolic char is in the alphabet or PAD, and PAD is a suffix."""
        cons = []
        for i, ch in enumerate(self.c):
            if isinstance(ch, int):
                continue
            cons.append(Or(ch == A.PAD, self.in_set(i, A.ANY)))
            if i + 1 < self.n:
                nxt = self.c[i + 1]
                cons.append(Or(Not(ch == A.PAD), nxt == A.PAD) if not isinstance(nxt, int) else
                            Or(Not(ch == A.PAD), nxt == A.PAD))
        return cons

    def is_code(self, i, code):
        if i >= self.n:
            return code == A.PAD
        ch = self.c[i]
        if isinstance(ch, int):
            return ch == code
        return ch == code

    def in_set(self, i, codes):
        if i >= self.n:
            return False
        ch = self.c[i]
        if isinstance(ch, int):
            return ch in codes
        key = (i, codes)
        r = self._memo.get(key)
        if r is None:
            # ranges of consecutive codes
            cs = sorted(codes)
            terms = []
            j = 0
            while j < len(cs):
                k = j
                while k + 1 < len(cs) and cs[k + 1] == cs[k] + 1:
                    k += 1
                if k == j:
                    terms.append(ch == cs[j])
                else:
                    terms.append(z3.And(z3.UGE(ch, cs[j]), z3.ULE(ch, cs[k])))
                j = k + 1
            r = Or(*terms)
            self._memo[key] = r
        return r

    def at_end(self, i):
        """position i is at or beyond the end of the string"""
        if i >= self.n:
            return True
        return self.is_code(i, A.PAD)

    def length_is(self, l):
        return And(self.at_end(l), True if l == 0 else Not(self.at_end(l - 1)))


class Matcher:
    def __init__(self, rules, text):
        self.rules = rules
        self.t = text
        self.n = text.n
        self.memo = {}
        self.skipmemo = {}
        self.has_ws = "WHITESPACE" in rules
        self.has_comment = "COMMENT" in rules

    # ---------------------------------------------------------------- literals
    def _lit(self, s, i):
        codes = A.encode(s)
        if codes is None:
            return {}  # a literal containing a character outside the alphabet never matches inside it
        if i + len(codes) > self.n:
            return {}
        cond = And(*[self.t.is_code(i + k, c) for k, c in enumerate(codes)])
        if cond is False:
            return {}
        return {i + len(codes): cond}

    # ---------------------------------------------------------------- skip
    def skip(self, i, dyn, gen):
        """{end: cond} of the implicit skip starting at i (always succeeds: conditions are exhaustive)."""
        if gen or dyn or not (self.has_ws or self.has_comment):
            return {i: True}
        r = self.skipmemo.get(i)
        if r is not None:
            return r
        ws = Node("ident", "WHITESPACE")
        cm = Node("ident", "COMMENT")
        if self.has_ws and self.has_comment:
            # WHITESPACE* ~ (COMMENT ~ WHITESPACE*)*     (all atomic)
            e = Node("seq", [Node("rep", ws, (0, None)),
                             Node("rep", Node("seq", [cm, Node("rep", ws, (0, None))]), (0, None))])
        elif self.has_ws:
            e = Node("rep", ws, (0, None))
        else:
            e = Node("rep", cm, (0, None))
        r = self.match(e, i, True, True)
        self.skipmemo[i] = r
        return r

    # ---------------------------------------------------------------- core
    def rule(self, name, i, dyn):
        if name in BUILTIN:
            if i >= self.n:
                return {}
            c = self.t.in_set(i, BUILTIN[name])
            return {} if c is False else {i + 1: c}
        if name == "NEWLINE":
            # pest: NEWLINE = "\n" | "\r\n" | "\r"
            if not hasattr(self, "_nl"):
                self._nl = Node("choice", [Node("str", "\n"), Node("str", "\r\n"), Node("str", "\r")])
            return self.match(self._nl, i, True, True)
        if name == "SOI":
            return {i: True} if i == 0 else {}
        if name == "EOI":
            c = self.t.at_end(i)
            return {} if c is False else {i: c}
        if name not in self.rules:
            raise Unsupported("unknown rule or built-in %s" % name)
        r = self.rules[name]
        if r.modifier in ("@", "$") or name in ("WHITESPACE", "COMMENT"):
            ndyn, gen = True, True
        elif r.modifier == "!":
            ndyn, gen = False, False
        else:
            ndyn, gen = dyn, False
        key = ("R", name, i, ndyn)
        res = self.memo.get(key)
        if res is None:
            res = self.match(r.expr, i, ndyn, gen)
            self.memo[key] = res
        return res

    def match(self, e, i, dyn, gen):
        key = (e.id, i, dyn, gen)
        res = self.memo.get(key)
        if res is not None:
            return res
        res = self._match(e, i, dyn, gen)
        res = {k: v for k, v in res.items() if v is not False}
        self.memo[key] = res
        return res

    def _match(self, e, i, dyn, gen):
        k = e.kind
        if k == "str":
            return self._lit(e.a, i)
        if k == "insens":
            raise Unsupported("case-insensitive literal")
        if k == "range":
            lo, hi = A.code_of(e.a), A.code_of(e.b)
            if lo is None or hi is None or lo > 127 or hi > 127:
                raise Unsupported("character range outside ASCII")
            if i >= self.n:
                return {}
            return {i + 1: self.t.in_set(i, frozenset(c for c in A.ASCII_CODES if lo <= c <= hi))}
        if k == "ident":
            return self.rule(e.a, i, dyn)
        if k == "not":
            ok = any_of(self.match(e.a, i, dyn, gen))
            return {i: Not(ok)}
        if k == "and":
            ok = any_of(self.match(e.a, i, dyn, gen))
            return {i: ok}
        if k == "opt":
            m = self.match(e.a, i, dyn, gen)
            out = dict(m)
            none = Not(any_of(m))
            out[i] = Or(out.get(i, False), none)
            return out
        if k == "choice":
            out = {}
            prior_failed = True
            for alt in e.a:
                m = self.match(alt, i, dyn, gen)
                for j, c in m.items():
                    out[j] = Or(out.get(j, False), And(prior_failed, c))
                prior_failed = And(prior_failed, Not(any_of(m)))
                if prior_failed is False:
                    break
            return out
        if k == "seq":
            cur = {i: True}
            for idx, item in enumerate(e.a):
                nxt = {}
                for j, cj in cur.items():
                    starts = {j: True} if idx == 0 else self.skip(j, dyn, gen)
                    for s, cs in starts.items():
                        base = And(cj, cs)
                        if base is False:
                            continue
                        for kk, ck in self.match(item, s, dyn, gen).items():
                            nxt[kk] = Or(nxt.get(kk, False), And(base, ck))
                cur = {p: c for p, c in nxt.items() if c is not False}
                if not cur:
                    return {}
            return cur
        if k == "rep":
            lo, hi = e.b
            return self._rep(e, i, dyn, gen, lo, hi)
        raise Unsupported("expression kind %s" % k)

    def _iter_step(self, e, j, dyn, gen, first):
        """one more iteration of the repeated expression from position j: {end: cond}
        (for non-first iterations: skip ~ e, undone as a whole if e fails)"""
        if first:
            return self.match(e.a, j, dyn, gen)
        out = {}
        for s, cs in self.skip(j, dyn, gen).items():
            for kk, ck in self.match(e.a, s, dyn, gen).items():
                out[kk] = Or(out.get(kk, False), And(cs, ck))
        return {p: c for p, c in out.items() if c is not False}

    def _rep(self, e, i, dyn, gen, lo, hi):
        # iterate: state = {pos: cond} after t iterations; greedy: continue while another iteration matches
        key = ("rep", e.id, i, dyn, gen)
        out = {}
        cur = {i: True}
        t = 0
        limit = self.n - i + 1
        while cur:
            nxt = {}
            for j, cj in cur.items():
                if hi is not None and t >= hi:
                    out[j] = Or(out.get(j, False), cj)
                    continue
                step = self._iter_step(e, j, dyn, gen, t == 0)
                more = any_of(step)
                stop = And(cj, Not(more))
                if t >= lo:
                    out[j] = Or(out.get(j, False), stop)
                for kk, ck in step.items():
                    if kk == j:
                        # a non-progressing iteration: pest rejects such grammars at compile time
                        if ck is not False and hi is None:
                            raise Unsupported("non-progressing repetition")
                    nxt[kk] = Or(nxt.get(kk, False), And(cj, ck))
            cur = {p: c for p, c in nxt.items() if c is not False}
            t += 1
            if t > limit + 1 and hi is None:
                break
        return out

    # ---------------------------------------------------------------- walking a successful parse
    def walk(self, e, start, dyn, gen, events, depth=0):
        """Follow the (deterministic) successful parse of expression e.
        start: {pos: cond} = "e is invoked at pos on the successful path".
        Returns {pos: cond} = position after e.  Appends (rule, {start: {end: cond}}) events for
        every non-silent rule invocation met on the way."""
        k = e.kind
        if k in ("str", "range", "not", "and", "insens"):
            return self._advance(e, start, dyn, gen)
        if k == "ident":
            name = e.a
            if name in BUILTIN or name in ("SOI", "EOI", "NEWLINE") or name not in self.rules:
                return self._advance(e, start, dyn, gen)
            r = self.rules[name]
            if r.modifier in ("@", "$") or name in ("WHITESPACE", "COMMENT"):
                ndyn, ngen = True, True
            elif r.modifier == "!":
                ndyn, ngen = False, False
            else:
                ndyn, ngen = dyn, False
            spans = {}
            out = {}
            for s, cs in start.items():
                for en, ce in self.rule(name, s, dyn).items():
                    c = And(cs, ce)
                    if c is False:
                        continue
                    spans.setdefault(s, {})[en] = c
                    out[en] = Or(out.get(en, False), c)
            if r.modifier != "_":
                ev = {"rule": name, "spans": spans, "children": []}
                events.append(ev)
                sub = ev["children"]
            else:
                sub = events
            # descend only into rules whose inner tokens matter
            if name in self.descend:
                live = {s: Or(*sp.values()) for s, sp in spans.items()}
                self.walk(r.expr, live, ndyn, ngen, sub, depth + 1)
            return out
        if k == "opt":
            inner_start = {}
            out = {}
            for s, cs in start.items():
                m = self.match(e.a, s, dyn, gen)
                ok = any_of(m)
                if And(cs, ok) is not False:
                    inner_start[s] = And(cs, ok)
                none = And(cs, Not(ok))
                if none is not False:
                    out[s] = Or(out.get(s, False), none)
            if inner_start:
                for p, c in self.walk(e.a, inner_start, dyn, gen, events, depth).items():
                    out[p] = Or(out.get(p, False), c)
            return out
        if k == "choice":
            out = {}
            remaining = dict(start)
            for alt in e.a:
                take = {}
                rest = {}
                for s, cs in remaining.items():
                    ok = any_of(self.match(alt, s, dyn, gen))
                    if And(cs, ok) is not False:
                        take[s] = And(cs, ok)
                    if And(cs, Not(ok)) is not False:
                        rest[s] = And(cs, Not(ok))
                if take:
                    for p, c in self.walk(alt, take, dyn, gen, events, depth).items():
                        out[p] = Or(out.get(p, False), c)
                remaining = rest
                if not remaining:
                    break
            return out
        if k == "seq":
            cur = start
            for idx, item in enumerate(e.a):
                if idx > 0:
                    cur = self._skip_from(cur, dyn, gen)
                cur = self.walk(item, cur, dyn, gen, events, depth)
                if not cur:
                    return {}
            return cur
        if k == "rep":
            lo, hi = e.b
            out = {}
            cur = start
            t = 0
            maxit = self.max_iterations if hi is None else hi
            while cur and t < maxit:
                go = {}
                for s, cs in cur.items():
                    step = self._iter_step(e, s, dyn, gen, t == 0)
                    more = any_of(step)
                    stop = And(cs, Not(more))
                    if t >= lo and stop is not False:
                        out[s] = Or(out.get(s, False), stop)
                    if And(cs, more) is not False:
                        go[s] = And(cs, more)
                if not go:
                    cur = {}
                    break
                if t > 0:
                    go = self._skip_from(go, dyn, gen, must_match=e.a)
                it_events = []
                cur = self.walk(e.a, go, dyn, gen, it_events, depth)
                for ev in it_events:
                    ev["iteration"] = t
                    events.append(ev)
                t += 1
            if cur:
                # iterations beyond the unrolling bound: recorded so that queries can exclude them
                self.truncated = Or(self.truncated, any_of(cur)) if hi is None else self.truncated
                if hi is not None:
                    for s, cs in cur.items():
                        out[s] = Or(out.get(s, False), cs)
            return out
        raise Unsupported("walk over %s" % k)

    def _advance(self, e, start, dyn, gen):
        out = {}
        for s, cs in start.items():
            for en, ce in self.match(e, s, dyn, gen).items():
                c = And(cs, ce)
                if c is not False:
                    out[en] = Or(out.get(en, False), c)
        return out

    def _skip_from(self, cur, dyn, gen, must_match=None):
        out = {}
        for s, cs in cur.items():
            for p, cp in self.skip(s, dyn, gen).items():
                c = And(cs, cp)
                if c is not False:
                    out[p] = Or(out.get(p, False), c)
        return out

    descend = frozenset()
    max_iterations = 4
    truncated = False

"""Validation of the encoder against the real parser (run on every check): the literal inputs of the
repository's own parser tests (both modes, the tests' macro configuration) plus extra corner inputs are
pushed through the real find() (native runner) and through the encoding evaluated concretely."""
import os
import re
import sys

sys.path.insert(0, os.path.join(os.path.dirname(os.path.abspath(__file__)), "..", "lib"))
import alphabet as A
import directive
import model
import peg

TEST_MACROS = (("test_module", "test_macro"), ("test_module", "test_macro1"), ("test_module", "test_macro2"),
               ("test_module::test_inner", "test_macro3"))


def rust_unescape(s):
    out = []
    i = 0
    while i < len(s):
        c = s[i]
        if c == "\\":
            n = s[i + 1]
            if n == "n":
                out.append("\n"); i += 2
            elif n == "r":
                out.append("\r"); i += 2
            elif n == "t":
                out.append("\t"); i += 2
            elif n == "\n":
                i += 2
                while i < len(s) and s[i] in " \t\n":
                    i += 1
            elif n == "u":
                m = re.match(r"\\u\{([0-9a-fA-F]+)\}", s[i:])
                out.append(chr(int(m.group(1), 16))); i += len(m.group(0))
            else:
                out.append(n); i += 2
        else:
            out.append(c); i += 1
    return "".join(out)


def corpus(repo):
    with open(os.path.join(repo, "src/parser/rust_parser.rs")) as f:
        src = f.read()
    m = re.search(r"^#\[cfg\(test\)\]", src, flags=re.M)
    tests = src[m.start():] if m else ""
    lits = []
    for mm in re.finditer(r'r#"(.*?)"#', tests, flags=re.S):
        lits.append(mm.group(1))
    for mm in re.finditer(r'(?<![r#])"((?:[^"\\]|\\.)*)"', tests, flags=re.S):
        lits.append(rust_unescape(mm.group(1)))
    with open(os.path.join(repo, "src/parser/code_parser.rs")) as f:
        src2 = f.read()
    for mm in re.finditer(r'String::from\(\s*"((?:[^"\\]|\\.)*)"', src2, flags=re.S):
        lits.append(rust_unescape(mm.group(1)))
    extra = [
        'test_macro!("a")', 'x // test_macro!("a")', '// test_macro!("a")\n', '/* test_macro!("a") */',
        'test_macro!(target: "t", "a")', 'test_macro!(target: "t", k = 1; "a")', 'test_macro!(k; "a")',
        'test_macro!(ref = 12; "a")', 'test_macro!(ref = 12 ; "a")', 'test_macro!(a = 1, ref = 4294967296; "a")',
        'test_macro!(ref = x; "a")', 'test_macro!(ref; "a")', 'test_macro!(a:? = b, c:% = "x;y", d; "a")',
        'test_macro!("[ref: 7] a")', 'test_macro!("[ref: 4294967296] a")', 'test_macro!("[ref: 00000000001] a")',
        'test_module::test_macro!("a")', 'other::test_macro!("a")', 'test_macro9!("a")', 'xtest_macro!("a")',
        'test_module::test_inner::test_macro3!("a")', 'test_macro!(x)', 'test_macro!()', '"test_macro!(\\"a\\")"',
        '// breadlog:ignore\ntest_macro!("a")', '/* breadlog:ignore */\ntest_macro!("a")',
        '// BREADLOG:IGNORE  \n\n  \n  test_macro!("a")', '// breadlog:ignore\nfoo();\ntest_macro!("a")',
        'foo(); // breadlog:ignore\ntest_macro!("a")', '// breadlog:no-kvp\ntest_macro!("a")',
        '// breadlog:no-kvp\ntest_macro!(k = 1; "[ref: 3] a")', '//breadlog:ignore\r\ntest_macro!("a")\r\n',
        'test_macro!("a") // breadlog:ignore', '// x breadlog:ignore\ntest_macro!("a")',
        '\u00e9!("a")', 'test_macro!("\u00e9\u2192")', 'test_macro ! ( "a" )', 'test_macro!(\n  "a"\n)',
        'test_macro!( /* c */ "a")', 'test_macro!(target: "t" , "a")', 'test_macro!(target: "a\\"b", "c")',
        'test_macro!("a\\"b")', 'test_macro!("a\\\\")', 'test_macro!(k = "v\\"w", l = 2; "a")',
        'test_macro!(target: "t", ref = 5; "a")', 'test_macro!(target: "t", a = 1, ref = 5, b = 2; "a")',
        'a\n// test_macro!("x")', '/// test_macro!("a")\nfn f(){}', 'test_macro!("a")test_macro1!("b")',
        'test_macro!(k=1,;"a")', 'test_macro!(k = 1, l; "a")', 'test_macro!(k:debug = 1; "a")',
        'test_macro!(\n    target: "t",\n    "a"\n)', 'test_macro!(target: "\u00e9\u2192", "a")',
        'fn f() {\n\ttest_macro!(\n\t\ttarget: "t",\n\t\tk = 1;\n\t\t"a"\n\t);\n}\n', 'x\r\n  test_macro!(target: "t",\r\n "a")\r\n',
        '\u00e9\u00e9 test_macro!(k:? ; "\u00e9")', 'test_macro!(e:?; "a")', 'test_macro!(a:%, b:debug, c:display = 1; "a")',
    ]
    seen = set()
    out = []
    for l in lits + extra:
        if l not in seen and "test_macro" in l or l in extra:
            if l not in seen:
                seen.add(l)
                out.append(l)
    return out


def compare(src, runner, text, structured, macros=TEST_MACROS, dirs=None):
    codes = A.encode(text)
    if codes is None:
        return None
    real = runner.find(text, structured=structured, macros=macros)
    if "panic" in real:
        return ("panic", real["panic"], None)
    t = peg.Text.concrete(codes + [A.PAD])
    fm = model.FileModel(src, t, max_kvps=8)
    dirs = dirs or directive.Directives()
    mine = model.entries_concrete(fm, macros, structured, dirs)
    r = [(e["pos"], e["reference"], e["kind"]) for e in real["entries"]]
    m = [(e["pos"], e["reference"], e["kind"]) for e in mine]
    lc = linecol_mismatches(text, real["entries"])
    if lc:
        return ("LINECOL", lc, None)
    return ("ok" if r == m else "DIFF", r, m)


def linecol_mismatches(text, entries):
    """C05: reported (line, column) are 1-based, in characters, and are those of the insertion offset"""
    out = []
    raw = text.encode("utf-8")
    for e in entries:
        try:
            ci = len(raw[:e["pos"]].decode("utf-8"))
        except UnicodeDecodeError:
            out.append({"entry": e, "why": "offset is not a character boundary"})
            continue
        line = 1 + text[:ci].count("\n")
        col = 1 + (ci - (text.rfind("\n", 0, ci) + 1))
        if (e["line"], e["col"]) != (line, col):
            out.append({"pos": e["pos"], "reported": [e["line"], e["col"]], "expected": [line, col]})
    return out


def long_inputs():
    """inputs around typical buffer sizes, filled with two-byte characters, a statement at every byte alignment"""
    out = []
    for size in (1024, 4096, 8192):
        for shift in range(0, 4):
            filler = "// " + "\u00e9" * ((size - 40) // 2) + "\n"
            text = ("x" * shift) + "\n" + filler + "fn f() { test_macro!(\"a\"); }\n" + filler + "test_macro!(k = 1; \"b\");\n"
            out.append(text)
    return out


def sweep_inputs():
    """statements whose expected entry is known by construction (no model involved): one configured macro with a
    message in which a 2-, 3- or 4-byte character sits at every byte offset up to 40, alone or behind a key-value
    -> [(text, char offset of the message body, char offset just after the opening bracket, has key-values)]"""
    out = []
    for ch in ("\u00e9", "\u2192", "\U0001F600"):
        for k in range(0, 41):
            msg = "a" * k + ch * 3 + "z"
            for kv in ("", "k = 1; "):
                head = "fn f() { test_macro!("
                text = head + kv + '"' + msg + '"); }\n'
                out.append((text, len(head) + len(kv) + 1, len(head), bool(kv)))
    return out


def ref_value_inputs():
    """structured statements with an existing `ref` key whose value is / is not an unsigned integer literal; the
    expectation comes from the property (C13), not from the model -> [(text, value text, id or None)]"""
    out = []
    for v, want in (("7", 7), ("007", 7), ("4294967295", 4294967295), ("  7  ", 7), ("0", 0),
                    ("4294967296", None), ("7 as u64", None), ("40 + 2", None), ("3 * shard", None), ("7 - 1", None),
                    ("x", None), ("x7", None), ("\"7\"", None), ("7.5", None), ("seven(7)", None)):
        for after in ("", ", k = 1"):
            out.append(('fn f() { test_macro!(ref = %s%s; "m"); }\n' % (v, after), v, want))
            out.append(('fn f() { test_macro!(a = 1, ref = %s%s; "m"); }\n' % (v, after), v, want))
    return out


def constructed(verbose=False):
    """the checks that need no encoder: constructed statements against expectations taken from the property"""
    import native
    runner = native.Runner()
    n = 0
    sweep, refsweep, panics = [], [], []
    try:
        for text, msg_at, paren_at, has_kv in sweep_inputs():
            for structured in (False, True):
                real = runner.find(text, structured=structured, macros=TEST_MACROS)
                n += 1
                if "panic" in real:
                    panics.append((text, structured, real["panic"]))
                    continue
                want_char = paren_at if structured else msg_at
                want = len(text[:want_char].encode("utf-8"))
                got = [(e["pos"], e["reference"], e["kind"]) for e in real["entries"]]
                if got != [(want, None, "StructuredNew" if structured else "String")]:
                    sweep.append((text, structured, {"real": got, "expected_pos": want}))
        for text, v, want in ref_value_inputs():
            real = runner.find(text, structured=True, macros=TEST_MACROS)
            n += 1
            if "panic" in real:
                panics.append((text, True, real["panic"]))
                continue
            ents = real["entries"]
            ok = len(ents) == 1 and ents[0]["kind"] == "StructuredPreExisting" and ents[0]["reference"] == want
            if ok and want is None:
                ok = ents[0]["usable"] is False
            if not ok:
                refsweep.append((text, True, {"value": v, "expected_reference": want,
                                              "real": [(e["pos"], e["reference"], e["kind"], e.get("usable")) for e in ents]}))
    finally:
        runner.close()
    return {"compared": n, "sweep": sweep, "refsweep": refsweep, "panics": panics}


def run(repo="/repo", verbose=False):
    import native
    src = model.Sources(repo)
    runner = native.Runner()
    n = 0
    diffs = []
    linecol = []
    panics = []
    sweep = []
    skipped = 0
    try:
        for text in long_inputs():
            for structured in (False, True):
                real = runner.find(text, structured=structured, macros=TEST_MACROS)
                n += 1
                if "panic" in real:
                    panics.append((text[:60] + "...(%d bytes)" % len(text.encode()), structured, real["panic"]))
                elif len(real["entries"]) != 2:
                    diffs.append((text[:60] + "...(%d bytes)" % len(text.encode()), structured, ("LONG", len(real["entries"]), 2)))
        for text in corpus(repo):
            for structured in (False, True):
                res = compare(src, runner, text, structured)
                if res is None:
                    skipped += 1
                    continue
                n += 1
                if res[0] == "panic":
                    panics.append((text, structured, res[1]))
                    continue
                if res[0] == "LINECOL":
                    linecol.append((text, structured, res[1]))
                elif res[0] != "ok":
                    diffs.append((text, structured, res))
                    if verbose:
                        print("DIFF", repr(text), structured, res)
    finally:
        runner.close()
    run.linecol = linecol
    run.panics = panics
    run.sweep = sweep
    return n, skipped, diffs


if __name__ == "__main__":
    n, skipped, diffs = run(verbose=True)
    print("compared", n, "skipped", skipped, "diffs", len(diffs))

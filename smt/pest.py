"""Parser for the subset of pest grammar syntax that /repo/src/parser/rust_grammar.pest may use.
Anything it does not understand raises Unsupported (-> the check is inconclusive, never a pass)."""
import re


class Unsupported(Exception):
    pass


class Node:
    __slots__ = ("kind", "a", "b", "id")
    _n = 0

    def __init__(self, kind, a=None, b=None):
        self.kind = kind
        self.a = a
        self.b = b
        Node._n += 1
        self.id = Node._n

    def __repr__(self):
        return "%s(%r,%r)" % (self.kind, self.a, self.b)


class Rule:
    def __init__(self, name, modifier, expr):
        self.name = name
        self.modifier = modifier  # '' normal, '_' silent, '@' atomic, '$' compound, '!' non-atomic
        self.expr = expr


TOKEN = re.compile(r"""
    (?P<ws>\s+|//[^\n]*|/\*.*?\*/)
  | (?P<str>"(?:[^"\\]|\\.)*")
  | (?P<insens>\^"(?:[^"\\]|\\.)*")
  | (?P<chr>'(?:[^'\\]|\\.|\\u\{[0-9a-fA-F]+\})')
  | (?P<ident>[A-Za-z_][A-Za-z0-9_]*)
  | (?P<range>\.\.)
  | (?P<num>[0-9]+)
  | (?P<op>[=|~!&*+?(){},@$_])
""", re.X | re.S)


def unescape(s):
    out = []
    i = 0
    while i < len(s):
        c = s[i]
        if c != "\\":
            out.append(c)
            i += 1
            continue
        n = s[i + 1]
        if n == "n":
            out.append("\n"); i += 2
        elif n == "r":
            out.append("\r"); i += 2
        elif n == "t":
            out.append("\t"); i += 2
        elif n == "0":
            out.append("\0"); i += 2
        elif n in "\\\"'":
            out.append(n); i += 2
        elif n == "u":
            m = re.match(r"\\u\{([0-9a-fA-F]+)\}", s[i:])
            if not m:
                raise Unsupported("bad \\u escape in %r" % s)
            out.append(chr(int(m.group(1), 16))); i += len(m.group(0))
        elif n == "x":
            out.append(chr(int(s[i + 2:i + 4], 16))); i += 4
        else:
            raise Unsupported("escape \\%s" % n)
    return "".join(out)


def tokenize(text):
    pos = 0
    toks = []
    while pos < len(text):
        m = TOKEN.match(text, pos)
        if not m:
            raise Unsupported("cannot tokenize grammar at %r" % text[pos:pos + 30])
        pos = m.end()
        k = m.lastgroup
        if k == "ws":
            continue
        toks.append((k, m.group(k)))
    return toks


class Parser:
    def __init__(self, text):
        self.t = tokenize(text)
        self.i = 0

    def peek(self):
        return self.t[self.i] if self.i < len(self.t) else (None, None)

    def eat(self, kind=None, val=None):
        k, v = self.peek()
        if (kind and k != kind) or (val is not None and v != val):
            raise Unsupported("grammar syntax: expected %s %s, got %s %r" % (kind, val, k, v))
        self.i += 1
        return v

    def grammar(self):
        rules = {}
        order = []
        while self.i < len(self.t):
            name = self.eat("ident")
            self.eat("op", "=")
            mod = ""
            k, v = self.peek()
            if (k == "op" and v in "_@$!") or (k == "ident" and v == "_"):
                mod = v
                self.i += 1
            # a rule named like `_` cannot occur; `_` tokenises as op only when alone
            self.eat("op", "{")
            e = self.choice()
            self.eat("op", "}")
            rules[name] = Rule(name, mod, e)
            order.append(name)
        return rules, order

    def choice(self):
        items = [self.seq()]
        while self.peek() == ("op", "|"):
            self.i += 1
            items.append(self.seq())
        if len(items) == 1:
            return items[0]
        return Node("choice", items)

    def seq(self):
        items = [self.prefix()]
        while self.peek() == ("op", "~"):
            self.i += 1
            items.append(self.prefix())
        if len(items) == 1:
            return items[0]
        return Node("seq", items)

    def prefix(self):
        k, v = self.peek()
        if k == "op" and v == "!":
            self.i += 1
            return Node("not", self.prefix())
        if k == "op" and v == "&":
            self.i += 1
            return Node("and", self.prefix())
        return self.postfix()

    def postfix(self):
        e = self.term()
        while True:
            k, v = self.peek()
            if k == "op" and v == "*":
                self.i += 1
                e = Node("rep", e, (0, None))
            elif k == "op" and v == "+":
                self.i += 1
                e = Node("rep", e, (1, None))
            elif k == "op" and v == "?":
                self.i += 1
                e = Node("opt", e)
            elif k == "op" and v == "{":
                # repetition bounds (only after a term, never at rule level because of position)
                save = self.i
                self.i += 1
                lo = hi = None
                k2, v2 = self.peek()
                if k2 == "num":
                    lo = int(self.eat("num"))
                    if self.peek() == ("op", ","):
                        self.i += 1
                        if self.peek()[0] == "num":
                            hi = int(self.eat("num"))
                    else:
                        hi = lo
                elif (k2, v2) == ("op", ","):
                    self.i += 1
                    lo = 0
                    hi = int(self.eat("num"))
                else:
                    self.i = save
                    return e
                self.eat("op", "}")
                e = Node("rep", e, (lo, hi))
            else:
                return e

    def term(self):
        k, v = self.peek()
        if k == "str":
            self.i += 1
            return Node("str", unescape(v[1:-1]))
        if k == "insens":
            self.i += 1
            return Node("insens", unescape(v[2:-1]))
        if k == "chr":
            self.i += 1
            lo = unescape(v[1:-1])
            self.eat("range")
            hi = unescape(self.eat("chr")[1:-1])
            return Node("range", lo, hi)
        if k == "ident":
            self.i += 1
            if v in ("PUSH", "PEEK", "POP", "PEEK_ALL", "POP_ALL", "DROP"):
                raise Unsupported("stack operation %s" % v)
            return Node("ident", v)
        if k == "op" and v == "(":
            self.i += 1
            e = self.choice()
            self.eat("op", ")")
            return e
        raise Unsupported("grammar syntax: unexpected %s %r" % (k, v))


def parse_grammar(text):
    return Parser(text).grammar()

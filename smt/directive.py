"""Model of code_parser.rs::check_for_boolean_directive over a Text (constant-folds on concrete layout).

    lines of code[..subject_pos + first char] in reverse; skip the line the subject is on; skip lines
    that are empty after trim(); on the first other line: search the comment regex in the trimmed line;
    no match -> false; match -> true iff some capture group (including group 0) equals the directive
    text after to_lowercase() and trim().
"""
import alphabet as A
from peg import And, Not, Or

WS = A.RUST_WHITE_SPACE


class Directives:
    def __init__(self):
        self._memo = {}

    def applies(self, fm, directive, p):
        key = (id(fm), directive, p)
        if key in self._memo:
            return self._memo[key]
        r = self._applies(fm, directive, p)
        self._memo[key] = r
        return r

    def _applies(self, fm, directive, p):
        t = fm.t
        n = t.n
        if p >= n:
            return False
        nl = lambda i: t.is_code(i, 10)
        ws = lambda i: t.in_set(i, WS)
        res = False
        no_nl_after = True  # no newline in (q1, p)
        for q1 in range(p - 1, -1, -1):
            c_q1 = And(nl(q1), no_nl_after)
            if c_q1 is not False:
                allws = True  # all whitespace in (b, q1]
                for b in range(q1, -1, -1):
                    if b < q1:
                        allws = And(allws, ws(b + 1))
                        if allws is False:
                            break
                    c_b = And(c_q1, nl(b), allws)
                    if c_b is False:
                        continue
                    no_nl_line = True
                    for a in range(b, -1, -1):
                        # line [a, b)
                        if a < b:
                            no_nl_line = And(no_nl_line, Not(nl(a)))
                            if no_nl_line is False:
                                break
                        start_ok = True if a == 0 else nl(a - 1)
                        c_a = And(c_b, no_nl_line, start_ok)
                        if c_a is False:
                            continue
                        nonblank = Or(*[Not(ws(k)) for k in range(a, b)])
                        c_line = And(c_a, nonblank)
                        if c_line is False:
                            continue
                        res = Or(res, And(c_line, self.line_has(fm, directive, a, b)))
            no_nl_after = And(no_nl_after, Not(nl(q1)))
            if no_nl_after is False:
                break
        return res

    def line_has(self, fm, directive, a, b):
        t = fm.t
        ws = lambda i: t.in_set(i, WS)
        out = False
        lead = True
        for a2 in range(a, b):
            if a2 > a:
                lead = And(lead, ws(a2 - 1))
                if lead is False:
                    break
            c1 = And(lead, Not(ws(a2)))
            if c1 is False:
                continue
            trail = True
            for b2 in range(b, a2, -1):
                if b2 < b:
                    trail = And(trail, ws(b2))
                    if trail is False:
                        break
                c2 = And(c1, trail, Not(ws(b2 - 1)))
                if c2 is False:
                    continue
                chosen, _matched = fm.commentsearch.first_match(a2, b2)
                hit = False
                for (s, e, cc, caps) in chosen:
                    groups = [(s, e)] + [g for g in caps.values() if g[1] is not None]
                    ghit = Or(*[self.group_is(fm, directive, x, y) for (x, y) in groups])
                    hit = Or(hit, And(cc, ghit))
                out = Or(out, And(c2, hit))
        return out

    def group_is(self, fm, directive, x, y):
        t = fm.t
        ws = lambda i: t.in_set(i, WS)
        L = len(directive)
        out = False
        lead = True
        for x2 in range(x, y - L + 1):
            if x2 > x:
                lead = And(lead, ws(x2 - 1))
                if lead is False:
                    break
            y2 = x2 + L
            trail = And(*[ws(k) for k in range(y2, y)])
            if trail is False:
                continue
            eq = True
            for k, d in enumerate(directive):
                if d.isalpha():
                    eq = And(eq, Or(t.is_code(x2 + k, ord(d.lower())), t.is_code(x2 + k, ord(d.upper()))))
                else:
                    eq = And(eq, t.is_code(x2 + k, ord(d)))
                if eq is False:
                    break
            out = Or(out, And(lead, trail, eq))
        return out

"""Native oracles built from /repo's current sources: the parser runner (real find()) and the real
breadlog binary.  Used to validate the encoder on every run and to replay solver witnesses."""
import json
import os
import re
import shutil
import subprocess
import tempfile

VERIF = os.path.dirname(os.path.dirname(os.path.abspath(__file__)))
REPO = os.environ.get("BLV_REPO", "/repo")
CACHE = os.path.join(VERIF, ".cache")


class NativeError(Exception):
    pass


def _env():
    env = dict(os.environ)
    env["CARGO_NET_OFFLINE"] = "true"
    env.pop("RUSTFLAGS", None)
    return env


def _write_if_changed(path, text):
    try:
        with open(path) as f:
            if f.read() == text:
                return
    except OSError:
        pass
    tmp = path + ".tmp%d" % os.getpid()
    with open(tmp, "w") as f:
        f.write(text)
    os.replace(tmp, path)


def build_runner():
    """(Re)build the runner against /repo's current parser sources. Returns the binary path.
    Several worker processes may ask at the same time: the build is serialised with a file lock."""
    import fcntl
    os.makedirs(CACHE, exist_ok=True)
    with open(os.path.join(CACHE, "runner.lock"), "w") as lk:
        fcntl.flock(lk, fcntl.LOCK_EX)
        return _build_runner_locked()


def _build_runner_locked():
    crate = os.path.join(CACHE, "runner-crate")
    os.makedirs(os.path.join(crate, "src"), exist_ok=True)
    with open(os.path.join(REPO, "Cargo.toml")) as f:
        toml = f.read()
    m = re.search(r"^\[dependencies\]\s*\n(.*?)(?=^\[|\Z)", toml, flags=re.M | re.S)
    keep = ("pest", "pest_derive", "serde_yaml", "serde", "regex", "lazy_static", "log")
    deps = [l for l in m.group(1).splitlines() if l.split("=")[0].strip() in keep]
    _write_if_changed(os.path.join(crate, "Cargo.toml"),
                      "[package]\nname = \"blv-runner\"\nversion = \"0.0.0\"\nedition = \"2021\"\n\n[dependencies]\n"
                      + "\n".join(deps) + "\n\n[workspace]\n\n[profile.dev]\ndebug = false\n")
    shutil.copy(os.path.join(REPO, "Cargo.lock"), os.path.join(crate, "Cargo.lock"))
    with open(os.path.join(VERIF, "native/runner/src/main.rs")) as f:
        src = f.read().replace("REPO_SRC", os.path.join(REPO, "src"))
    # the runner includes /repo's parser sources by path: make its own source change whenever they do, so that cargo
    # rebuilds it whatever the files' timestamps say
    import hashlib
    h = hashlib.sha256()
    for sub in ("parser", "config"):
        for root, _d, files in sorted(os.walk(os.path.join(REPO, "src", sub))):
            for fn in sorted(files):
                with open(os.path.join(root, fn), "rb") as f:
                    h.update(fn.encode() + b"\0" + f.read())
    src = "// parser sources: %s\n" % h.hexdigest() + src
    # the grammar attribute is relative to the crate's src dir: mirror the parser dir there
    pdir = os.path.join(crate, "src", "parser")
    os.makedirs(pdir, exist_ok=True)
    shutil.copy(os.path.join(REPO, "src/parser/rust_grammar.pest"), os.path.join(pdir, "rust_grammar.pest"))
    _write_if_changed(os.path.join(crate, "src", "main.rs"), src)
    target = os.path.join(CACHE, "native-target")
    p = subprocess.run(["cargo", "build", "--offline", "--target-dir", target], cwd=crate, env=_env(),
                       stdout=subprocess.PIPE, stderr=subprocess.STDOUT, text=True)
    if p.returncode != 0:
        raise NativeError("runner build failed:\n" + p.stdout[-3000:])
    return os.path.join(target, "debug", "blv-runner")


class Runner:
    def __init__(self):
        self.bin = build_runner()
        self.p = subprocess.Popen([self.bin], stdin=subprocess.PIPE, stdout=subprocess.PIPE, text=True, bufsize=1)

    def ask(self, req):
        self.p.stdin.write(json.dumps(req) + "\n")
        self.p.stdin.flush()
        line = self.p.stdout.readline()
        if not line:
            raise NativeError("runner died on %r" % (req,))
        return json.loads(line)

    def find(self, code, structured=False, macros=(("log", "info"),)):
        r = self.ask({"op": "find", "code_hex": code.encode("utf-8").hex(), "structured": structured,
                      "macros": [list(m) for m in macros]})
        if "entries" not in r and "panic" not in r:
            raise NativeError("runner answered %r" % (r,))
        return r

    def extract(self, text):
        return self.ask({"op": "extract", "text_hex": text.encode("utf-8").hex()})["reference"]

    def close(self):
        try:
            self.p.stdin.close()
            self.p.wait(timeout=5)
        except Exception:
            self.p.kill()


def build_binary(profile="debug"):
    target = os.path.join(CACHE, "repo-target")
    cmd = ["cargo", "build", "--offline", "--manifest-path", os.path.join(REPO, "Cargo.toml"), "--target-dir", target,
           "--bin", "breadlog"]
    if profile == "release":
        cmd.append("--release")
    p = subprocess.run(cmd, env=_env(), stdout=subprocess.PIPE, stderr=subprocess.STDOUT, text=True)
    if p.returncode != 0:
        raise NativeError("breadlog build failed:\n" + p.stdout[-3000:])
    return os.path.join(target, profile, "breadlog")


def run_breadlog(binary, files, structured=False, macros=(("log", "info"),), check=False, lock=None, use_cache=False,
                 timeout=60):
    """Run the real binary on a materialised tree. files: {relative name: text}. Returns dict."""
    base = os.environ.get("BLV_SCRATCH") or "/var/tmp"
    d = tempfile.mkdtemp(prefix="blv-run-", dir=base)
    try:
        os.makedirs(os.path.join(d, "src"))
        for name, text in files.items():
            with open(os.path.join(d, "src", name), "wb") as f:
                f.write(text.encode("utf-8") if isinstance(text, str) else text)
        y = "source_dir: src\nuse_cache: %s\nrust:\n  structured: %s\n  log_macros:\n" % (
            "true" if use_cache else "false", "true" if structured else "false")
        for mod, name in macros:
            y += "    - module: %s\n      name: %s\n" % (mod, name)
        with open(os.path.join(d, "Breadlog.yaml"), "w") as f:
            f.write(y)
        if lock is not None:
            with open(os.path.join(d, "Breadlog.lock"), "w") as f:
                f.write("next_reference_id: %d\n" % lock)
        cmd = [binary, "--config", os.path.join(d, "Breadlog.yaml")] + (["--check"] if check else [])
        p = subprocess.run(cmd, stdout=subprocess.PIPE, stderr=subprocess.STDOUT, text=True, timeout=timeout, errors="replace")
        out_files = {}
        for name in files:
            with open(os.path.join(d, "src", name), "rb") as f:
                out_files[name] = f.read().decode("utf-8", "replace")
        lock_after = None
        lp = os.path.join(d, "Breadlog.lock")
        if os.path.exists(lp):
            m = re.search(r"next_reference_id:\s*(\d+)", open(lp).read())
            lock_after = int(m.group(1)) if m else "unparsable"
        return {"rc": p.returncode, "output": p.stdout, "files": out_files, "lock": lock_after,
                "others": sorted(set(os.listdir(os.path.join(d, "src"))) - set(files))}
    finally:
        shutil.rmtree(d, ignore_errors=True)

"""Shared plumbing for the checks: exit-code discipline, known findings, evidence files.

exit 0  every obligation of the tier was discharged (unsat / SUCCESSFUL with witnesses reached);
        listed known findings are printed as KNOWN-FINDING lines
exit 1  a solver counterexample that was replayed against the real code and is not a listed finding
        (one line: VIOLATION property=<id> replay=<path>)
exit 2  anything else: timeout, out of memory, tool crash, encoder cannot follow the source,
        vacuous harness, counterexample that did not reproduce
"""
import hashlib
import json
import os
import sys
import time

VERIF = os.path.dirname(os.path.dirname(os.path.abspath(__file__)))
REPO = os.environ.get("BLV_REPO", "/repo")
EVIDENCE_DIR = os.path.join(VERIF, "evidence")
REPLAY_DIR = os.path.join(VERIF, "replays")
KNOWN = os.path.join(VERIF, "known_findings.json")


def load_known():
    try:
        with open(KNOWN) as f:
            return json.load(f)
    except FileNotFoundError:
        return {"findings": [], "fixed": []}


def match_known(prop, obligation, description):
    """A known finding is identified by property + obligation (harness or query name) + a substring
    of the failing assertion / witness class.  Anything else is a new violation."""
    for k in load_known().get("findings", []):
        if k.get("property") != prop:
            continue
        m = k.get("match", {})
        if m.get("obligation") and m["obligation"] != obligation:
            continue
        if m.get("contains") and m["contains"] not in description:
            continue
        return k
    return None


def repo_hashes(paths):
    out = {}
    for p in paths:
        fp = os.path.join(REPO, p)
        try:
            with open(fp, "rb") as f:
                out[p] = hashlib.sha256(f.read()).hexdigest()[:16]
        except OSError:
            out[p] = None
    return out


class Outcome:
    """Accumulates the verdicts of the obligations of one property check."""

    def __init__(self, prop, tier, seed, level="model_checking"):
        self.prop = prop
        self.tier = tier
        self.seed = seed
        self.level = level
        self.t0 = time.time()
        self.obligations = []  # dicts: name, engine, verdict, details
        self.violations = []  # dicts: obligation, description, replay
        self.known = []
        self.inconclusive = []
        self.assumptions = []
        self.functions = set()
        self.bounds = {}
        self.samples = []
        self.evaluations = 0
        self.nontrivial = set()
        self.solver_time = 0.0
        self.replayed = 0

    def add_obligation(self, name, engine, verdict, **details):
        rec = {"name": name, "engine": engine, "verdict": verdict}
        rec.update(details)
        self.obligations.append(rec)

    def assume(self, *texts):
        for t in texts:
            if t not in self.assumptions:
                self.assumptions.append(t)

    def violation(self, obligation, description, replay_obj):
        k = match_known(self.prop, obligation, description)
        if k is not None:
            self.known.append({"obligation": obligation, "description": description, "what": k.get("what", "")})
            return
        os.makedirs(REPLAY_DIR, exist_ok=True)
        h = hashlib.sha256((obligation + description).encode()).hexdigest()[:10]
        path = os.path.join(REPLAY_DIR, "%s-%s.json" % (self.prop, h))
        replay_obj = dict(replay_obj)
        replay_obj.update({"property": self.prop, "obligation": obligation, "description": description})
        with open(path, "w") as f:
            json.dump(replay_obj, f, indent=1, sort_keys=True, default=str)
        self.violations.append({"obligation": obligation, "description": description, "replay": path})

    def inconclusive_because(self, obligation, why):
        self.inconclusive.append({"obligation": obligation, "why": why})

    def finish(self, rule, trusted_base=(), extra=None):
        wall = time.time() - self.t0
        discharged = sum(1 for o in self.obligations if o["verdict"] in ("holds", "known-finding"))
        cov = {
            "evaluations": int(self.evaluations),
            "distinct_nontrivial": int(len(self.nontrivial)),
            "rule": rule,
            "samples": self.samples[:12] if self.samples else [o for o in self.obligations[:6]],
            "obligations": len(self.obligations),
            "discharged": discharged,
            "exhaustive": False,
            "explanation": "bounded solver verdicts (CBMC/cadical via Kani, z3/cvc5 via the PEG/regex encoder); "
                           "every verdict holds for all values inside the stated bounds and says nothing outside them",
            "functions_encoded": sorted(self.functions),
            "bounds": self.bounds,
            "queries": self.obligations,
            "solver_time_s": round(self.solver_time, 2),
            "traces_validated_against_impl": int(self.replayed),
            "trusted_base": list(trusted_base),
            "known_findings": self.known,
            "inconclusive": self.inconclusive,
            "violations": self.violations,
        }
        if extra:
            cov.update(extra)
        ev = {
            "property_id": self.prop,
            "tier": self.tier,
            "seed": int(self.seed),
            "level": self.level,
            "coverage": cov,
            "assumptions": self.assumptions,
            "wall_s": round(wall, 2),
            "violations": len(self.violations),
        }
        os.makedirs(EVIDENCE_DIR, exist_ok=True)
        with open(os.path.join(EVIDENCE_DIR, "%s.json" % self.prop), "w") as f:
            json.dump(ev, f, indent=1, default=str)
        for k in self.known:
            print("KNOWN-FINDING: property=%s %s [%s: %s]" % (self.prop, k["what"], k["obligation"], k["description"]))
        if self.violations:
            for v in self.violations:
                print("VIOLATION property=%s replay=%s" % (self.prop, v["replay"]))
                print("  obligation=%s: %s" % (v["obligation"], v["description"]))
            return 1
        if self.inconclusive:
            for i in self.inconclusive:
                print("INCONCLUSIVE property=%s obligation=%s: %s" % (self.prop, i["obligation"], i["why"]))
            return 2
        print("OK property=%s tier=%s obligations=%d discharged=%d wall=%.1fs" % (
            self.prop, self.tier, len(self.obligations), discharged, wall))
        return 0

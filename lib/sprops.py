"""Engine S obligations per property, run as sharded worker processes (z3 terms cannot cross process
boundaries, so every worker re-reads /repo's sources and rebuilds its own encoding)."""
import json
import os
import subprocess
import sys
import time

VERIF = os.path.dirname(os.path.dirname(os.path.abspath(__file__)))
SMT = os.path.join(VERIF, "smt")

GRAMMAR = "src/parser/rust_grammar.pest (every rule, implicit WHITESPACE/COMMENT skipping as pest_generator 2.7 emits it)"
FIND = "src/parser/rust_parser.rs::rust_log_ref_finder::find (as the find()-contract of DESIGN.md §3.3; validated against the real find() on every run)"
REGEXES = "regex literals of LogRefEntry::extract_reference and RUST_COMMENT_PATTERN (leftmost-first semantics)"
TOKENS = "format literals of LogRefEntry::insertable_reference_string and the structured prefix/suffix in find()"
DIRECTIVE = "src/parser/code_parser.rs::check_for_boolean_directive (hand-transcribed line scan, validated against the real function on every run)"
S_ASSUME = [
    "alphabet: printable ASCII, TAB/LF/VT/FF/CR and one representative per non-ASCII class the grammar, regexes, "
    "lines(), trim() and UTF-8 length can distinguish (U+0085 U+200E U+2028 U+00E9 U+0301 U+0660 U+2192 U+1F600 U+00C9 U+3000)",
    "pest/pest_generator implement PEG semantics with implicit skipping as documented; the regex crate implements leftmost-first semantics",
    "the find()-contract and the directive scan are hand-transcribed models; every run compares them with the real find() on the "
    "repository's own parser test inputs plus corner cases (native runner) and every solver witness is replayed on the real code",
]


def S(name, fn, quick_kw, thorough_kw=None, shards=1, functions=None, timeout=900):
    return {"engine": "S", "name": name, "fn": fn, "quick": quick_kw, "thorough": thorough_kw or quick_kw, "shards": shards,
            "functions": functions or [GRAMMAR, FIND], "timeout": timeout}


CATALOG = {
    "C01": [S("s-c01-recognition", "c12_rule", {"m": 19}, {"m": 24}, functions=[REGEXES, "str::parse::<u32> (decimal value <= 4294967295)"])],
    "C03": [S("s-c03-existing-structured", "c13_existing", {"quick": True}, {"quick": False}, shards=8, functions=[GRAMMAR, FIND]),
            S("s-c03-existing-plain", "c12_in_statement", {}, shards=3, functions=[GRAMMAR, FIND, REGEXES]),
            S("s-c03-positions-plain", "c03_positions", {"n": 13, "structured": False}, {"n": 18, "structured": False}),
            S("s-c03-positions-structured", "c03_positions", {"n": 13, "structured": True}, {"n": 18, "structured": True}),
            S("s-c03-literals", "c03_literals", {}, functions=[TOKENS])],
    "C06": [S("s-c06-plain", "c06_roundtrip", {"structured": False, "quick": True}, {"structured": False, "quick": False}, shards=4,
              functions=[GRAMMAR, FIND, REGEXES, TOKENS]),
            S("s-c06-structured", "c06_roundtrip", {"structured": True, "quick": True}, {"structured": True, "quick": False}, shards=4,
              functions=[GRAMMAR, FIND, REGEXES, TOKENS]),
            S("s-c06-freeform-plain", "c06_freeform", {"n": 9}, {"n": 12}, shards=6, functions=[GRAMMAR, FIND, REGEXES, TOKENS]),
            S("s-c06-freeform-structured", "c06_freeform", {"n": 8, "structured": True}, {"n": 11, "structured": True}, shards=8,
              functions=[GRAMMAR, FIND, REGEXES, TOKENS], timeout=1800),
            S("s-c06-sequences", "c06_sequences", {"quick": True}, {"quick": False}, shards=4, functions=[GRAMMAR, FIND, TOKENS, DIRECTIVE]),
            S("s-c06-placement-structured", "c10_templates", {"structured": True, "quick": True}, {"structured": True, "quick": False}, shards=6),
            S("s-c06-placement-plain", "c10_templates", {"structured": False, "quick": True}, {"structured": False, "quick": False}, shards=6)],
    "C10": [S("s-c10-multi-config", "c10_multi_config", {}, shards=3),
            S("s-c10-prefix-literals", "c10_prefix_literals", {"structured": False}, shards=2),
            S("s-c10-prefix-literals-structured", "c10_prefix_literals", {"structured": True}, shards=2),
            S("s-c10-plain", "c10_templates", {"structured": False, "quick": True}, {"structured": False, "quick": False}, shards=6),
            S("s-c10-structured", "c10_templates", {"structured": True, "quick": True}, {"structured": True, "quick": False}, shards=6)],
    "C11x": [],
    "C11": [S("s-c11-multi-config", "c10_multi_config", {}, shards=3),
            S("s-c11-freeform", "c11_freeform", {"n": 16}, {"n": 20}),
            S("s-c11-names", "c11_names", {}, shards=2),
            S("s-c11-names-structured", "c11_names", {"structured": True}, shards=2),
            S("s-c11-strings", "c11_strings", {"n_body": 10}, {"n_body": 14})],
    "C12": [S("s-c12-rule", "c12_rule", {"m": 19}, {"m": 24}, functions=[REGEXES, "str::parse::<u32> (as decimal value <= 4294967295; cross-checked by Kani harness u_parse in the thorough tier)"]),
            S("s-c12-statement", "c12_in_statement", {}, shards=3, functions=[GRAMMAR, FIND, REGEXES]),
            S("s-c12-token", "c12_token", {"tail": 3}, {"tail": 5, "ks": (1, 2, 3, 5, 9, 10)}, functions=[REGEXES, TOKENS])],
    "C13": [S("s-c13-existing", "c13_existing", {"quick": True}, {"quick": False}, shards=8, functions=[GRAMMAR, FIND]),
            S("s-c13-unusable", "c13_unusable", {"quick": True}, {"quick": False}, shards=4, functions=[GRAMMAR, FIND]),
            S("s-c13-new", "c10_templates", {"structured": True, "quick": True}, {"structured": True, "quick": False}, shards=6)],
    "C05": [S("s-c05-positions-plain", "c10_templates", {"structured": False, "quick": True}, {"structured": False, "quick": False}, shards=6),
            S("s-c05-positions-structured", "c10_templates", {"structured": True, "quick": True}, {"structured": True, "quick": False}, shards=6)],
    "C14": [S("s-c14-directives", "c14_directives", {"quick": True}, {"quick": False}, shards=12, functions=[GRAMMAR, FIND, REGEXES, DIRECTIVE])],
    "C17": [S("s-c17-validate", "validation_only", {}, functions=[GRAMMAR, FIND, DIRECTIVE])],
}


M_CATALOG = {
    "C04": [{"engine": "M", "name": "m-c04-dispatch", "functions": ["src/main.rs::main (MIR CFG: dispatch on Context.check_mode)"]},
            {"engine": "M", "name": "m-c04-no-mutating-calls", "functions": ["call graph of every function of the crate (MIR dump)"]}],
    # however a run ends, the lock has to be written: a handler that ends the process itself takes that away
    "C02": [{"engine": "M", "name": "m-c18-only-flag-handlers", "functions": ["src/main.rs::main (MIR: every call into signal_hook)"]}],
    "C16": [{"engine": "M", "name": "m-c16-defaults", "functions": ["src/config/context.rs::{default_use_cache, default_rust_structured, default_rust_extensions} (MIR) and the serde attributes of Config/RustConfig/Cache"]}],
    "C18": [{"engine": "M", "name": "m-c18-signals", "functions": ["src/main.rs::main (MIR: arguments of signal_hook::flag::register)"]},
            {"engine": "M", "name": "m-c18-only-flag-handlers", "functions": ["src/main.rs::main (MIR: every call into signal_hook)"]}],
}


def obligations(prop, tier):
    return [dict(o, kw=o[tier], tier=tier) for o in CATALOG.get(prop, [])] + [dict(o) for o in M_CATALOG.get(prop, [])]


import threading
_M_LOCK = threading.Lock()
_M_CACHE = {}


def run_m(ob):
    import mengine
    # one MIR analysis per process, never concurrently (z3's default context is not thread-safe)
    with _M_LOCK:
        if "r" not in _M_CACHE:
            try:
                _M_CACHE["r"] = mengine.analyse()
            except Exception as e:  # noqa
                _M_CACHE["r"] = {"results": [], "errors": ["%s: MIR engine: %s" % (ob["name"], e)], "wall_s": 0}
        r = _M_CACHE["r"]
    if not r["results"] and r["errors"]:
        return {"results": [], "errors": r["errors"], "validation": None, "wall_s": 0}
    res = [x for x in r["results"] if x["name"] == ob["name"]]
    errs = [e for e in r["errors"] if e.startswith(ob["name"])]
    return {"results": res, "errors": errs, "validation": None, "wall_s": r["wall_s"]}


def run_s(ob):
    """run one S obligation: `shards` worker processes; returns merged record"""
    if ob["engine"] == "M":
        return run_m(ob)
    procs = []
    t0 = time.time()
    for sh in range(ob["shards"]):
        cmd = ["python3-vt", os.path.join(SMT, "worker.py"), ob["fn"], json.dumps(ob["kw"]), str(sh), str(ob["shards"])]
        env = dict(os.environ, BLV_TIER=ob.get("tier", "quick"))
        procs.append(subprocess.Popen(cmd, stdout=subprocess.PIPE, stderr=subprocess.PIPE, text=True, env=env))
    results = []
    errors = []
    validation = None
    for p in procs:
        try:
            so, se = p.communicate(timeout=ob["timeout"])
        except subprocess.TimeoutExpired:
            p.kill()
            errors.append("worker timed out after %ds" % ob["timeout"])
            continue
        if p.returncode != 0:
            errors.append("worker exit %d: %s" % (p.returncode, se[-600:]))
            continue
        try:
            d = json.loads(so.strip().splitlines()[-1])
        except Exception as e:  # noqa
            errors.append("bad worker output: %r" % (so[-300:],))
            continue
        results += d["results"]
        validation = d.get("validation") or validation
        if d.get("error"):
            errors.append(d["error"])
    return {"results": results, "errors": errors, "validation": validation, "wall_s": round(time.time() - t0, 2)}


def absorb(out, prop, ob, rec):
    import native_replay
    out.functions.update(ob["functions"])
    if ob["engine"] == "M":
        out.assume("MIR of `main` as dumped by the nightly rustc (-Zunpretty=mir) from /repo's current sources; signal numbers are Linux's; "
                   "signal-hook installs a handler for exactly the number it is given (library, FFI: not encoded)")
    else:
        out.assume(*S_ASSUME)
    name = ob["name"]
    val = rec.get("validation")
    if val:
        out.replayed += val.get("compared", 0)
    for err in rec["errors"]:
        out.inconclusive_because(name, err)
    if val and val.get("linecol") and prop == "C05":
        for text, structured, lc in val["linecol"][:3]:
            out.violation("conformance-linecol", "reported line/column differ from the line/column of the insertion offset",
                          {"engine": "native", "input": text, "structured": structured, "mismatch": lc,
                           "note": "found by running the real find() on the validation corpus (a conformance run, not a solver verdict)"})
    if val and val.get("panics"):
        if prop == "C17":
            for text, structured, msg in val["panics"][:3]:
                out.violation("conformance-panic", "the real find() panicked",
                              {"engine": "native", "input": text, "structured": structured, "panic": msg,
                               "note": "found by running the real find() on the validation corpus (a conformance run, not a solver verdict)"})
        else:
            out.inconclusive_because(name, "the real find() panics on a validation input: %r" % (val["panics"][0],))
    if val and val.get("sweep"):
        # inputs whose expected entry is known by construction (one well-formed statement of a configured macro)
        if prop in ("C10", "C05", "C06"):
            for text, structured, info in val["sweep"][:3]:
                out.violation("conformance-recognition", "a well-formed statement of a configured macro is not reported (or not where the reference goes)",
                              {"engine": "native", "input": text, "structured": structured, "real_entries": info.get("real"),
                               "expected_pos": info.get("expected_pos"),
                               "note": "found by running the real find() on constructed statements with a multi-byte character at every "
                                       "byte offset of the message (a conformance run, not a solver verdict)"})
        else:
            out.inconclusive_because(name, "the real find() misses a constructed well-formed statement: %r" % (val["sweep"][0],))
    if val and val.get("refsweep"):
        if prop in ("C13", "C01"):
            for text, structured, info in val["refsweep"][:3]:
                out.violation("conformance-ref-value", "an existing `ref` value is not classified the way the property says "
                              "(unsigned integer literal <= 4294967295: that id; anything else: unusable, never a number)",
                              {"engine": "native", "input": text, "structured": True, "detail": info,
                               "note": "found by running the real find() on constructed statements (a conformance run, not a solver verdict)"})
        else:
            out.inconclusive_because(name, "the real find() classifies a constructed `ref` value unexpectedly: %r" % (val["refsweep"][0],))
    if val and val.get("diffs"):
        out.inconclusive_because(name, "encoder disagrees with the real find() on %d validation input(s), e.g. %r" % (
            len(val["diffs"]), val["diffs"][0]))
    nres = 0
    for r in rec["results"]:
        nres += 1
        qn = r["name"]
        out.evaluations += 1 + (1 if r.get("twin") else 0)
        out.solver_time += r.get("seconds") or 0
        out.bounds[qn] = r.get("bound")
        if r["verdict"] == "holds" and r.get("instance") and r.get("expect"):
            # conformance: solver-chosen instances of the template go through the real find()
            bad = None
            for text in [r["instance"]] + list(r.get("instances") or []):
                inst = dict(r, witness={"text": text})
                rep = native_replay.replay(prop, inst)
                out.replayed += 1
                lc = native_replay.linecol(text, r["expect"]) if prop == "C05" else []
                if rep.get("reproduced") or lc:
                    bad = (text, rep, lc)
                    break
            if bad:
                text, rep, lc = bad
                out.violation(qn + "-instance", "the real find() does not behave as the model on a template instance %s" % r.get("class", ""),
                              {"engine": "S+native", "query": qn, "witness": {"text": text}, "native": rep, "linecol": lc,
                               "note": "model holds (unsat) but the real code deviates on this solver-chosen instance: find() glue differs from its contract"})
                out.add_obligation(qn, "S", "violated", seconds=r["seconds"], witness=text, native=rep)
                continue
        if r["verdict"] == "holds":
            out.nontrivial.add(qn)
            out.add_obligation(qn, "S", "holds", seconds=r["seconds"], twin=r.get("twin"), bound=r.get("bound"))
            if len(out.samples) < 12:
                out.samples.append({"query": qn, "verdict": "unsat", "seconds": r["seconds"], "bound": r.get("bound"), "vacuity_twin": r.get("twin")})
        elif r["verdict"] == "violated":
            w = r.get("witness") or {}
            rep = native_replay.replay(prop, r)
            out.replayed += 1
            desc = "%s %s" % (qn, r.get("class", ""))
            if rep["reproduced"]:
                before = len(out.violations)
                out.violation(qn, desc.strip(), {"engine": "S", "query": qn, "witness": w, "bound": r.get("bound"),
                                                 "native": rep, "how_to_replay": "./check %s --only %s" % (prop, name)})
                out.add_obligation(qn, "S", "known-finding" if len(out.violations) == before else "violated",
                                   seconds=r["seconds"], witness=w, native=rep)
            else:
                out.add_obligation(qn, "S", "inconclusive", seconds=r["seconds"], witness=w, native=rep)
                out.inconclusive_because(qn, "solver witness %r did not reproduce on the real code (%s): encoder bug" % (
                    w.get("text"), rep.get("why")))
        else:
            out.add_obligation(qn, "S", "inconclusive", seconds=r.get("seconds"), note=r.get("note"))
            out.inconclusive_because(qn, "solver answered %s %s" % (r["verdict"], r.get("note", "")))
    if nres == 0 and not rec["errors"]:
        out.inconclusive_because(name, "no query was produced")

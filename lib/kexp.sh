#!/bin/bash
# usage: kexp.sh <tag> <harness> [timeout]   -- debugging aid: run one harness in its own scratch + target dir
tag=$1; h=$2; to=${3:-300}
cd /verif
export BLV_SCRATCH=/var/tmp/kexp-$tag
rm -rf $BLV_SCRATCH; mkdir -p $BLV_SCRATCH
python3 - <<PY
import sys, os
sys.path.insert(0,'/verif/lib')
import kengine
s=kengine.Scratch(keep=True); s.dir='/var/tmp/kexp-$tag/crate'
import shutil
os.makedirs(s.dir)
s.assemble([("codegen/generate.rs","/verif/kani/harness/verif_generate.rs")])
PY
cp -a /verif/.cache/kani-target $BLV_SCRATCH/target
cd $BLV_SCRATCH/crate
( ulimit -v 25000000; [ -n "$KCFG" ] && export RUSTFLAGS="$KCFG"; CARGO_NET_OFFLINE=true timeout $to cargo kani -Z stubbing -Z unstable-options $KEXTRA --target-dir $BLV_SCRATCH/target --harness codegen::generate::verif_generate::$h --exact ${BLV_CFGS:+} > $BLV_SCRATCH/log 2>&1 )
echo "rc=$?"
grep -E "Runtime Symex|VCC|variables|Runtime decision|VERIFICATION|Verification Time|Failed Checks|cover properties" $BLV_SCRATCH/log

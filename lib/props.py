"""Property specifications: which obligations decide which property, at which bounds."""
import concurrent.futures as cf
import json
import os
import re
import sys
import time

import common
import kengine

VERIF = common.VERIF

# ------------------------------------------------------------------------------------------------
# Engine K harness catalogue
# ------------------------------------------------------------------------------------------------
FS_MODEL = ("async-std replaced by /verif/kani/shims/async-std: synchronous in-memory file-system model "
            "(write cache over-approximated: any amount of accepted bytes may reach the disk after each write, "
            "flush/Drop drain everything; every subset of operations may fail; after a failed drain that moved bytes the whole cache is "
            "sent again by the next drain, as async-std does (duplicated fragment); rename is atomic)")
DESUGAR = ("codegen/generate.rs is desugared textually before compilation (async fn->fn, .await removed, "
           "async blocks->closures, #[async_trait] dropped); task::spawn/block_on run their closure inline, "
           "so there is exactly one schedule: the sequential one async-std's single block_on produces")
TOKEN_STUB = ("LogRefEntry::insertable_reference_string stubbed: records the id, returns a 1-byte marker "
              "(the token text is Engine S's subject: c12-token-roundtrip, c03-token-literals, c06-roundtrip)")
TEMP_STUB = "AsyncTempFile::new stubbed: creates the model path 'h' (creation may fail); temp-name formatting not executed"
UNLINK_STUB = "std::fs::remove_file stubbed: unlink in the model; unlinking the temp file is assumed not to fail"
PR_STUB = ("in the driver harnesses process_references is replaced by its contract (None iff the stop flag is seen, which the "
           "real loop is shown to satisfy by u_pr; per-processor result as established by u_nextid/u_count/u_insert*/"
           "u_insert_reduce; insert pass: tokens on disk <= ids taken <= missing, counter = start + ids taken, no wrap); "
           "the lifting from one file (u_insert) to many files is an induction argument, not a solver result")
FINDER_STUB = "CodeFinder::find stubbed: 0..2 files or failure (walkdir is FFI)"
LOCK_STUB = ("Context::cache_next_reference_id replaced by its contract (use_cache off: nothing; on: the lock records exactly the "
             "id given), which u_ctx_write discharges on the real function; the lock write itself is assumed to succeed")
LOG_NOTE = "log macros are the real `log` crate with no logger installed (max level Off): arguments are not formatted"
TRACING = "tracing::event! replaced by a no-op shim (Kani cannot compile the real macro expansion)"

GEN = "src/codegen/generate.rs"
K_HARNESSES = {
    "u_nextid": dict(
        functions=[GEN + "::NextReferenceIdProcessor::map", GEN + "::NextReferenceIdProcessor::reduce",
                   "src/parser/code_parser.rs::LogRefEntry::{reference,exists,usable_reference_position}"],
        stubs=0, assumptions=[DESUGAR, LOG_NOTE],
        bound="2 files x NENT entries, every u32 id value, every kind; more files/entries outside"),
    "u_count": dict(
        functions=[GEN + "::CountMissingReferenceIdProcessor::map", GEN + "::CountMissingReferenceIdProcessor::reduce"],
        stubs=0, assumptions=[DESUGAR, LOG_NOTE, TRACING],
        bound="2 files x NENT entries, every u32 id value, every kind"),
    "u_insert": dict(
        functions=[GEN + "::InsertReferencesProcessor::map", GEN + "::AsyncTempFile::{path,file,drop}"],
        stubs=3, assumptions=[DESUGAR, FS_MODEL, TOKEN_STUB, TEMP_STUB, UNLINK_STUB, LOG_NOTE, TRACING,
                              "entries sorted by strictly increasing byte offset <= file length (discharged on the grammar by Engine S)",
                              "counter start >= 1"],
        bound="1 file of <= NBYTES symbolic printable-ASCII bytes (symbolic length), NENT entries with symbolic offsets/"
              "kinds/references, symbolic u32 counter start, every subset of failing operations, every drain schedule"),
    "u_insert_content": dict(
        functions=[GEN + "::InsertReferencesProcessor::map"],
        stubs=3, assumptions=[DESUGAR, FS_MODEL, TOKEN_STUB, TEMP_STUB, UNLINK_STUB, LOG_NOTE, TRACING,
                              "entries sorted by strictly increasing byte offset <= file length", "counter start >= 1",
                              "no injected failures in this harness"],
        bound="as u_insert without failures"),
    "u_insert_utf8": dict(
        functions=[GEN + "::InsertReferencesProcessor::map"],
        stubs=4, assumptions=[DESUGAR, FS_MODEL, TOKEN_STUB, TEMP_STUB, UNLINK_STUB, LOG_NOTE, TRACING,
                              "entries sorted by strictly increasing byte offset <= file length, on character boundaries", "counter start >= 1",
                              "no injected failures in this harness"],
        bound="as u_insert_content, with one two-byte character (U+00E9) at a symbolic offset: byte offsets and character counts differ"),
    "u_insert_faults": dict(
        functions=[GEN + "::InsertReferencesProcessor::map"],
        stubs=3, assumptions=[DESUGAR, FS_MODEL, TOKEN_STUB, TEMP_STUB, UNLINK_STUB, LOG_NOTE, TRACING,
                              "file content fixed to distinct bytes 'abcd..' (map never inspects bytes)"],
        bound="as u_insert with concrete content of NBYTES bytes"),
    "u_insert_unordered": dict(
        functions=[GEN + "::InsertReferencesProcessor::map"],
        stubs=3, assumptions=[DESUGAR, FS_MODEL, TOKEN_STUB, TEMP_STUB, UNLINK_STUB, LOG_NOTE, TRACING],
        bound="2 entries whose offsets decrease, <= NBYTES symbolic bytes, no injected failures"),
    "u_insert2": dict(
        functions=[GEN + "::InsertReferencesProcessor::map (two consecutive files, shared counter)"],
        stubs=3, assumptions=[DESUGAR, FS_MODEL, TOKEN_STUB, TEMP_STUB, UNLINK_STUB, LOG_NOTE, TRACING,
                              "entries sorted by strictly increasing byte offset <= file length", "counter start >= 1",
                              "no injected failures in this harness"],
        bound="2 files of <= NBYTES symbolic bytes, NENT entries each, symbolic u32 counter start, every drain schedule"),
    "u_insert_reduce": dict(
        functions=[GEN + "::InsertReferencesProcessor::reduce"],
        stubs=0, assumptions=[], bound="<= 3 per-file results, counts < 2^40"),
    "u_load": dict(
        functions=[GEN + "::load_code"],
        stubs=0, assumptions=[DESUGAR, FS_MODEL, LOG_NOTE],
        bound="file of <= NBYTES symbolic ASCII bytes, with or without a UTF-8 byte order mark, readable or not, read failing or not"),
    "u_pr": dict(
        functions=[GEN + "::process_references (instantiated with an abstract one-line processor)", GEN + "::load_code",
                   "src/codegen/finder.rs::CodeFinder::new"],
        stubs=2, assumptions=[DESUGAR, FS_MODEL, FINDER_STUB, LOG_NOTE,
                              "find_references stubbed (empty): the parser is Engine S's subject",
                              "one instantiation of the generic function (abstract processor); the three real instantiations share this body"],
        bound="2 files, each readable or not, stop flag initially set or set at any operation boundary (before/after each read, during each map)"),
    "u_extract": dict(
        module="verif_parser",
        functions=["src/parser/code_parser.rs::LogRefEntry::extract_reference (real code, real str::parse::<u32>)",
                   "reference regex literal (through the generated regex shim)"],
        stubs=0, assumptions=["regex crate replaced by /verif/kani/shims/regex-template: byte-level backtracking matcher over tables generated "
                              "from the regex literals in /repo's sources (leftmost-first, greedy; exact for ASCII-literal patterns)"],
        bound="text `[ref: ` + exactly NDIGITS arbitrary digits + one of `]`, blank, `x` + ` m`"),
    "u_ctx_read": dict(
        module="verif_context",
        functions=["src/config/context.rs::Context::read_cached_next_reference_id"],
        stubs=8, assumptions=["std::path::Path::join stubbed (empty path: the lock path does not matter to the model); std::path::Path::exists, std::fs::read_to_string, serde_yaml::from_str stubbed with arbitrary outcomes; "
                              "std::fs::{remove_file, remove_dir_all, rename, write} stubbed to count mutations (any other file-system call is FFI and makes Kani fail)"],
        bound="use_cache on/off, lock absent/present, readable or not, parsable or not, any u32 value",
        ignore=["rust_dealloc must be called", "free argument", "double free", "free called for new"],
        ignore_note=("allocator-model assertions of Kani's C library fire spuriously when the PathBuf grown by Path::join / the "
                     "bit-packed io::Error are dropped (the code is safe Rust; memory safety is assumed); the assertions that matter "
                     "here are raised inside the stubs, i.e. before those drops")),
    "u_ctx_write": dict(
        module="verif_context",
        functions=["src/config/context.rs::Context::cache_next_reference_id"],
        stubs=6, assumptions=["std::path::Path::join, serde_yaml::to_string and std::fs::{write, remove_file, rename} stubbed (lock model records the value); "
                              "Path::exists stubbed: a lock file may or may not be there already"],
        bound="use_cache on/off, any u32 id, lock present or absent"),
    "u_find": dict(
        module="verif_finder",
        functions=["src/codegen/finder.rs::CodeFinder::find (real code, with std's Path::extension, OsStr/str conversions and Vec<String>::contains compiled from source)"],
        stubs=4, assumptions=["walkdir replaced by /verif/kani/shims/walkdir: the walk yields the root and then arbitrary entries (name, kind: file/directory/"
                              "link to file/link to directory/unreadable/other, depth 1 or 2); a link is reported as a link unless follow_links(true) was asked for, "
                              "min_depth/max_depth filter by depth; any other walkdir API makes the build fail (inconclusive)",
                              "std::fs::metadata and Metadata::is_dir stubbed (arbitrary outcome); core::str::from_utf8 stubbed (names are ASCII in the model)",
                              LOG_NOTE],
        bound="NFILES entries below the root `/s`, names of exactly NNAME characters from {r s R S a . ~}, optionally inside a one-character directory, "
              "NEXT configured extensions of exactly EXTLEN characters from the same set; non-ASCII and longer names outside"),
    "u_setup_context": dict(
        module="verif_main",
        functions=["src/main.rs::setup_context (copied out of main.rs verbatim on every run; real std::path::Path::parent and to_str)"],
        stubs=4, assumptions=["std::fs::read_to_string stubbed (the configuration file is readable; checks the path it is given); Context::new stubbed: records the "
                              "directory and mode it is called with (u_ctx_new decides what Context::new does with them); core::str::from_utf8 stubbed (ASCII argument)"],
        bound="--config argument of exactly FLEN characters: FLEN-1 characters from {c /} without `//`, then `b`; longer arguments, `.`/`..` components outside"),
    "u_ctx_new": dict(
        module="verif_context",
        functions=["src/config/context.rs::Context::new (real code incl. Path::join, str::starts_with, PathBuf::to_str)",
                   "src/config/context.rs::Context::read_cached_next_reference_id (real Path::join)"],
        stubs=6, assumptions=["serde_yaml::from_str stubbed: the configuration parses and yields an arbitrary source_dir/use_cache (the error branch formats a "
                              "serde error, which CBMC cannot execute); Path::exists and fs::read_to_string stubbed, they check the path they are given; "
                              "core::str::from_utf8 stubbed (ASCII paths); std::alloc::{dealloc, realloc} replaced by never-freeing versions"],
        bound="configuration directory of exactly DIRLEN (0..2) characters from {c / .}, source_dir of exactly SRCLEN (1..2) characters from {s / .}; longer paths outside"),
    "u_ctx_write_path": dict(
        module="verif_context",
        functions=["src/config/context.rs::Context::cache_next_reference_id (real Path::join)"],
        stubs=4, assumptions=["serde_yaml::to_string and std::fs::write stubbed (write checks the path it is given)"],
        bound="configuration directory of exactly DIRLEN (0..2) characters from {c / .}, any u32 id"),
    "d_generate": dict(
        functions=[GEN + "::generate_code", "src/codegen/finder.rs::CodeFinder::new"],
        stubs=3, assumptions=[DESUGAR, PR_STUB, FINDER_STUB, LOCK_STUB, LOG_NOTE,
                              "precondition (induction hypothesis of C02): a lock that is read is >= 1 and above every id in the tree",
                              "the value 4294967295 in counter/lock means 'range exhausted': no id is handed out from it"],
        bound="<= 2 files, <= 3 missing references, every u32 for max existing id / lock value, lock absent/present/"
              "unparsable, use_cache on/off, stop flag set before or during any pass, pass failure arbitrary"),
    "d_generate_kill": dict(
        functions=[GEN + "::generate_code"],
        stubs=3, assumptions=[DESUGAR, PR_STUB, FINDER_STUB, LOCK_STUB, LOG_NOTE],
        bound="as d_generate; asks about the operation boundary between the insert pass and the lock write"),
    "d_check": dict(
        functions=[GEN + "::check_references", "src/codegen/finder.rs::CodeFinder::new"],
        stubs=3, assumptions=[DESUGAR, PR_STUB, FINDER_STUB, LOCK_STUB, LOG_NOTE],
        bound="<= 2 files, <= 3 missing references, lock any state, stop flag set before or during the pass"),
}

QUICK_BOUNDS = {"NBYTES": 4, "NENT": 2}
# (before std::alloc::dealloc was stubbed, (6, 3) made CBMC's allocator model raise a spurious `free argument has
# offset zero` and the two dimensions had to be deepened separately)
DEEP_BOUNDS = {"6x3": {"NBYTES": 6, "NENT": 3}}


def KD(harness, ndigits, timeout=1500, mem_gb=24):
    return {"engine": "K", "name": "%s@%d-digits" % (harness, ndigits), "harness": harness,
            "bounds": dict(QUICK_BOUNDS, NDIGITS=ndigits), "timeout": timeout, "mem_gb": mem_gb}


def K(harness, deep=False, timeout=900, mem_gb=20):
    if deep:
        return [{"engine": "K", "name": "%s@deep-%s" % (harness, k), "harness": harness, "bounds": b, "timeout": timeout,
                 "mem_gb": mem_gb} for k, b in DEEP_BOUNDS.items()]
    return {"engine": "K", "name": harness, "harness": harness, "bounds": QUICK_BOUNDS, "timeout": timeout, "mem_gb": mem_gb}


def KB(harness, tag, bounds, timeout=1500, mem_gb=24):
    """a harness at explicitly given bounds"""
    return {"engine": "K", "name": "%s@%s" % (harness, tag), "harness": harness, "bounds": dict(QUICK_BOUNDS, **bounds),
            "timeout": timeout, "mem_gb": mem_gb}


def FIND(nfiles, nname, next_, extlen, deep=0, timeout=1800):
    return KB("u_find", "%dx%d-%dx%d%s" % (nfiles, nname, next_, extlen, {0: "", 1: "-in-dir", 2: "-in-hidden-dir"}[deep]),
              {"NFILES": nfiles, "NNAME": nname, "NEXT": next_, "EXTLEN": extlen, "DEEP": deep}, timeout, 28)


def S(name, fn, **kw):
    return {"engine": "S", "name": name, "fn": fn, "kw": kw}


# ------------------------------------------------------------------------------------------------
# per-property obligations
# ------------------------------------------------------------------------------------------------
def obligations(prop, tier):
    deep = tier == "thorough"
    q = {
        "C01": [K("u_nextid"), K("u_insert"), K("d_generate"), KD("u_extract", 3)],
        "C02": [K("u_insert"), K("d_generate"), K("d_generate_kill"), K("u_ctx_write")],
        "C03": [K("u_insert"), K("u_insert_utf8"), K("u_insert_unordered"), K("u_load")],
        "C04": [K("u_count"), K("d_check"), K("u_pr"), K("u_load"), K("u_ctx_read")],
        "C05": [K("u_count"), K("u_nextid"), K("u_insert"), K("u_insert_reduce"), K("d_check"), K("u_pr")],
        "C06": [K("d_generate"), K("u_count"), K("u_nextid"), K("u_insert")],
        "C07": [K("u_insert"), K("u_insert_utf8"), K("u_insert_unordered")],
        "C08": [K("u_insert"), K("u_insert_reduce"), K("d_generate")],
        "C15": [K("d_generate"), FIND(1, 4, 2, 2), FIND(1, 3, 1, 2), KB("u_setup_context", "len4", {"FLEN": 4}), KB("u_ctx_new", "dir2-src1", {"DIRLEN": 2, "SRCLEN": 1}),
                KB("u_ctx_new", "dir1-src2", {"DIRLEN": 1, "SRCLEN": 2}), KB("u_ctx_write_path", "dir2", {"DIRLEN": 2}),
                KB("u_ctx_write_path", "dir0", {"DIRLEN": 0})],
        "C16": [K("d_generate"), K("d_check"), K("u_ctx_read"), K("u_ctx_write")],
        "C17": [K("u_nextid"), K("u_count"), K("u_insert"), K("u_insert_reduce"), K("d_generate"), K("d_check"), K("u_pr"), K("u_load")],
        "C18": [K("d_generate"), K("d_check"), K("u_pr"), K("u_ctx_write")],
    }
    obs = list(q.get(prop, []))
    if prop == "C13":
        obs = [K("u_insert")]
    if prop == "C12":
        obs = [KD("u_extract", 1), KD("u_extract", 3)]
    if deep:
        extra = {
            "C01": [K("u_nextid", True), K("u_insert", True, 2400, 28), K("u_insert2", False, 2400, 28)],
            "C02": [K("u_insert", True, 2400, 28)],
            "C03": [K("u_insert", True, 2400, 28), K("u_insert_unordered", True, 2400)],
            "C05": [K("u_count", True), K("u_insert", True, 2400, 28)],
            "C07": [K("u_insert", True, 2400, 28), K("u_insert_faults", True, 2400, 28)],
            "C08": [K("u_insert", True, 2400, 28), K("u_insert_faults", True, 2400, 28)],
            "C13": [K("u_insert", True, 2400, 28)],
            "C12": [KD("u_extract", 9, 3000, 28), KD("u_extract", 10, 3000, 28), KD("u_extract", 11, 3000, 28)],
            "C17": [K("u_insert", True, 2400, 28)],
            "C15": [KB("u_setup_context", "len3", {"FLEN": 3}), KB("u_setup_context", "len5", {"FLEN": 5}),
                    FIND(1, 3, 1, 1, 2, 2400), FIND(1, 3, 1, 1, 1, 2400), FIND(1, 5, 1, 2), FIND(1, 4, 1, 1), FIND(1, 2, 1, 1),
                    KB("u_ctx_new", "dir2-src2", {"DIRLEN": 2, "SRCLEN": 2}),
                    KB("u_ctx_write_path", "dir1", {"DIRLEN": 1})],
        }
        for o in extra.get(prop, []):
            obs += o if isinstance(o, list) else [o]
    for o in obs:
        # only this property's assertions (and the untagged panic/overflow checks) are active
        o["focus"] = None if prop == "C17" else prop
    try:
        import sprops
        obs += sprops.obligations(prop, tier)
    except ImportError:
        pass
    return obs


def tags_of(description):
    """'C01/C02: text' -> {'C01','C02'}; untagged (panics, overflow, bounds) -> empty set."""
    m = re.match(r'^"?((?:C\d{2})(?:/C\d{2})*):', description.strip())
    if not m:
        return set()
    return set(m.group(1).split("/"))


def absorb_k(out, prop, ob, rec):
    meta = K_HARNESSES[ob["harness"]]
    out.functions.update(meta["functions"])
    out.assume(*meta["assumptions"])
    out.assume("std::alloc::dealloc stubbed as a no-op in every Kani harness (memory is never freed: safe Rust cannot observe a free, and "
               "CBMC's allocator model otherwise raises spurious, build-dependent assertions)")
    out.bounds[ob["name"]] = "%s; %s; unwinding assertions on" % (
        meta["bound"], " ".join("%s=%s" % kv for kv in sorted(ob["bounds"].items())))
    summary = {("kani_verdict" if k == "verdict" else k): rec.get(k) for k in ("verdict", "time_s", "wall_s", "checks_total", "checks_failed",
                                      "covers_satisfied", "covers_total", "symex_s", "vccs", "vccs_remaining",
                                      "sat_vars", "sat_clauses", "solver_s", "stubs", "cmd")}
    summary["failed"] = rec.get("failed", [])
    if rec.get("compile_errors"):
        summary["compile_errors"] = rec["compile_errors"]
    out.solver_time += rec.get("time_s") or 0.0
    verdict = rec["verdict"]
    name = ob["name"]
    if meta.get("ignore") and rec.get("failed"):
        kept = [f for f in rec["failed"] if not any(ig in f["description"] for ig in meta["ignore"])]
        if len(kept) != len(rec["failed"]):
            out.assume("%s: %s" % (ob["harness"], meta["ignore_note"]))
            rec["failed"] = kept
            summary["failed"] = kept
            if not kept and verdict == "FAILED":
                verdict = "SUCCESSFUL"
    if verdict not in ("SUCCESSFUL", "FAILED"):
        out.add_obligation(name, "K", "inconclusive", **summary)
        out.inconclusive_because(name, "%s (%s)" % (verdict, (rec.get("log_tail") or "")[-300:].replace("\n", " | ")))
        return
    if len(rec.get("stubs", [])) < meta["stubs"]:
        out.add_obligation(name, "K", "inconclusive", **summary)
        out.inconclusive_because(name, "expected %d stubs to be applied, log shows %d" % (meta["stubs"], len(rec.get("stubs", []))))
        return
    out.evaluations += rec.get("checks_total") or 0
    for c in rec.get("checks", []):
        if c["status"] == "SUCCESS" and (prop in tags_of(c["description"])):
            out.nontrivial.add((ob["harness"], c["description"]))
        if c["status"] == "SATISFIED":
            out.nontrivial.add((ob["harness"], "cover: " + c["description"]))
    if verdict == "SUCCESSFUL":
        if rec.get("covers_total") and rec.get("covers_satisfied") != rec.get("covers_total"):
            out.add_obligation(name, "K", "inconclusive", **summary)
            out.inconclusive_because(name, "vacuity witness not reached: %s" % rec.get("unsat_covers"))
            return
        out.add_obligation(name, "K", "holds", **summary)
        out.samples.append({"obligation": name, "harness": ob["harness"], "bounds": ob["bounds"],
                            "vccs": rec.get("vccs"), "sat_vars": rec.get("sat_vars"), "time_s": rec.get("time_s"),
                            "assertions_for_this_property": sorted(
                                {c["description"] for c in rec.get("checks", []) if prop in tags_of(c["description"])})[:8]})
        return
    # FAILED
    if rec.get("unwinding_failed"):
        out.add_obligation(name, "K", "inconclusive", **summary)
        out.inconclusive_because(name, "unwinding assertion failed: the bound does not cover the code any more")
        return
    # reads through pointers CBMC considers invalid (its model of empty or re-allocated buffers) return arbitrary data:
    # whatever else failed on such a run is not evidence about the property (seen on the unchanged tree: an empty
    # configuration directory in u_ctx_new made Path::join "read unallocated memory" and a C15 assertion failed with it)
    POINTER_ARTIFACTS = ("dereference failure: pointer invalid", "memcpy source region readable", "memcpy region",
                         "pointer to unallocated memory")
    if not kengine.repo_has_unsafe():
        parts = [f for f in rec.get("failed", []) if any(a in f["description"] for a in POINTER_ARTIFACTS)]
        if parts:
            summary["pointer_model_artifacts"] = sorted({f["description"] for f in parts})
            out.add_obligation(name, "K", "inconclusive", **summary)
            out.inconclusive_because(name, "CBMC's memory model reports reads through invalid pointers in safe code (%s): the data read is "
                                           "arbitrary, so nothing this run reports is evidence about the property" % summary["pointer_model_artifacts"][:2])
            return
    # assertions of CBMC's allocator model are artifacts for safe code (memory safety is assumed, see kengine.KANI_FLAGS):
    # they are never reported as violations of a property; on their own they make the obligation inconclusive
    ARTIFACTS = ("rust_dealloc must be called", "free argument", "double free", "free called for new",
                 "dereference failure: pointer invalid", "memcpy source region readable", "memcpy destination region writeable")
    if not kengine.repo_has_unsafe():
        arts = [f for f in rec.get("failed", []) if any(a in f["description"] for a in ARTIFACTS)]
        if arts:
            rec["failed"] = [f for f in rec["failed"] if f not in arts]
            summary["allocator_model_artifacts"] = sorted({f["description"] for f in arts})
            if not rec["failed"]:
                out.add_obligation(name, "K", "inconclusive", **summary)
                out.inconclusive_because(name, "only assertions of CBMC's allocator model failed (%s): an artifact of the model for safe "
                                               "code, not a statement about the property" % summary["allocator_model_artifacts"][:2])
                return
    # code the engine cannot execute (FFI, inline assembly, ...) is not a verdict about the property
    UNSUPPORTED = ("is not currently supported by Kani", "call to foreign", "unsupported construct", "Unsupported")
    unsup = [f for f in rec.get("failed", []) if any(u in f["description"] for u in UNSUPPORTED)]
    if unsup:
        rec["failed"] = [f for f in rec["failed"] if f not in unsup]
        summary["unsupported_constructs"] = sorted({f["description"] for f in unsup})
        if not rec["failed"]:
            out.add_obligation(name, "K", "inconclusive", **summary)
            out.inconclusive_because(name, "the code reaches something Kani cannot execute (%s): no verdict" % summary["unsupported_constructs"][:2])
            return
    relevant = []
    foreign = []
    for f in rec.get("failed", []):
        t = tags_of(f["description"])
        if not t or prop in t:
            relevant.append(f)
        else:
            foreign.append(f)
    if prop == "C17":
        relevant = [f for f in rec.get("failed", []) if not tags_of(f["description"]) or "C17" in tags_of(f["description"])]
        foreign = []
    if not relevant:
        if foreign and prop != "C17":
            out.add_obligation(name, "K", "inconclusive", **summary)
            out.inconclusive_because(name, "assertions of this property are masked by failing assertions of %s" % sorted(
                {t for f in foreign for t in tags_of(f["description"])}))
        else:
            out.add_obligation(name, "K", "holds", **summary)
        return
    before = len(out.violations)
    # replay: re-execute the counterexample with every symbolic input pinned to the solver's values
    rep = None
    known_only = all(common.match_known(prop, name, f["description"]) for f in relevant)
    if not known_only:
        blocks = rec.get("playback_values") or []
        want = [" ".join(f["description"].strip('"').split()) for f in relevant]
        vals = None
        for kind, desc, v in blocks:
            if kind != "cover" and any(desc.strip('"') in w or w in desc for w in want):
                vals = v
                break
        if vals is None:
            for kind, desc, v in blocks:
                if kind != "cover":
                    vals = v
                    break
        if vals:
            try:
                rr = kengine.run_isolated(ob["harness"], bounds=ob["bounds"], timeout=600, mem_gb=ob["mem_gb"],
                                          focus=ob.get("focus"), replay_values=vals,
                                          module=K_HARNESSES[ob["harness"]].get("module", "verif_generate"))
                got = {f["description"] for f in rr.get("failed", [])}
                ARTIFACTS = ("rust_dealloc must be called", "free argument", "double free", "free called for new",
                             "dereference failure: pointer invalid", "memcpy source region readable")
                only_artifacts = bool(got) and all(any(a in g for a in ARTIFACTS) for g in got)
                rep = {"pinned_inputs": len(vals), "kani_verdict": rr.get("verdict"), "failed": sorted(got),
                       "reproduced": any(f["description"] in got for f in relevant) or only_artifacts,
                       "disturbed_by_allocator_model": only_artifacts, "wall_s": rr.get("wall_s"), "values": vals}
                if only_artifacts:
                    rep["note"] = ("the concrete re-execution stopped at assertions of CBMC's allocator model (artifacts of freeing "
                                   "heap strings with pinned inputs), before reaching the property's assertion; the symbolic "
                                   "counterexample on the real code stands and its input values are given above")
            except Exception as e:  # noqa
                rep = {"reproduced": False, "error": repr(e)}
        else:
            # Kani printed no values for this assertion: have an independent SAT solver decide the same harness
            try:
                rr = kengine._run_isolated(ob["harness"], K_HARNESSES[ob["harness"]].get("module", "verif_generate"), ob["bounds"],
                                           max(ob["timeout"], 1800), ob["mem_gb"], False, None, None, ob.get("focus"), None, "kissat")
                got = {f["description"] for f in rr.get("failed", [])}
                rep = {"reproduced": any(f["description"] in got for f in relevant), "second_solver": "kissat",
                       "kani_verdict": rr.get("verdict"), "failed": sorted(got), "wall_s": rr.get("wall_s"),
                       "note": "Kani printed no concrete playback values for the failing assertion; the same harness was decided again "
                               "with kissat instead of cadical and fails at the same assertion"}
            except Exception as e:  # noqa
                rep = {"reproduced": False, "error": "no concrete playback values and the second solver run failed: %r" % (e,)}
        out.replayed += 1
        if not rep.get("reproduced"):
            out.add_obligation(name, "K", "inconclusive", **summary)
            out.inconclusive_because(name, "counterexample did not reproduce with pinned inputs: %s" % rep)
            return
    for f in relevant:
        out.violation(name, f["description"], {"engine": "K", "harness": ob["harness"], "bounds": ob["bounds"],
                                               "location": "%s:%s in %s" % (f["file"], f["line"], f["function"]),
                                               "concrete_replay": rep,
                                               "cmd": rec.get("cmd"), "how_to_replay": "./check %s --only %s" % (prop, name)})
    out.add_obligation(name, "K", "known-finding" if len(out.violations) == before else "violated", **summary)


def run_ob(ob):
    if ob["engine"] == "K":
        try:
            rec = _run_k(ob)
            if rec.get("verdict") in ("ERROR", "NO_VERDICT"):
                # tool crash (seen when many solver processes compete for memory): one retry
                time.sleep(5)
                rec2 = _run_k(ob)
                rec2["retried_after"] = rec.get("verdict")
                return rec2
            return rec
        except kengine.Inconclusive as e:
            return {"harness": ob["harness"], "verdict": "ENCODER", "failed": [], "checks": [], "stubs": [],
                    "log_tail": str(e)}
    import sprops
    return sprops.run_s(ob)


def _run_k(ob):
    return kengine.run_isolated(ob["harness"], bounds=ob["bounds"], timeout=ob["timeout"], mem_gb=ob["mem_gb"],
                                focus=ob.get("focus"), module=K_HARNESSES[ob["harness"]].get("module", "verif_generate"))


RULE = ("one evaluation = one verification condition handed to the SAT/SMT solver (Kani: every check of the harness; "
        "Engine S: every query); distinct_nontrivial = distinct assertions written for this property that the solver "
        "proved on a reachable path, plus distinct reachability witnesses (kani::cover / sat twins) that were satisfied")
TRUSTED = ["Kani 0.68 / CBMC 6.11 / cadical", "z3 (python bindings of the tooling venv; cvc5 1.0 as cross-check in the thorough tier)", "rustc MIR semantics as modelled by Kani",
           "the shims and stubs listed under assumptions"]


def run(prop, tier, seed, only=None):
    obs = obligations(prop, tier)
    if only:
        obs = [o for o in obs if o["name"] in only]
    out = common.Outcome(prop, tier, seed)
    if not obs:
        print("property %s is not claimed (see MANIFEST.json not_applicable)" % prop)
        return 2
    try:
        kengine.ensure_cache()
    except kengine.Inconclusive as e:
        out.inconclusive_because("setup", str(e))
        return out.finish(RULE, TRUSTED)
    # dedupe identical obligations
    seen = set()
    uniq = []
    for o in obs:
        if o["name"] not in seen:
            seen.add(o["name"])
            uniq.append(o)
    workers = int(os.environ.get("BLV_JOBS", "6"))
    with cf.ThreadPoolExecutor(max_workers=workers) as ex:
        futs = {ex.submit(run_ob, o): o for o in uniq}
        for fut in cf.as_completed(futs):
            o = futs[fut]
            try:
                rec = fut.result()
            except Exception as e:  # noqa
                out.add_obligation(o["name"], o["engine"], "inconclusive", error=repr(e))
                out.inconclusive_because(o["name"], "runner error: %r" % (e,))
                continue
            if o["engine"] == "K":
                absorb_k(out, prop, o, rec)
            else:
                import sprops
                sprops.absorb(out, prop, o, rec)
    return out.finish(RULE, TRUSTED)


def replay(path):
    with open(path) as f:
        r = json.load(f)
    name = r["obligation"]
    print("replaying %s for %s" % (name, r["property"]))
    return run(r["property"], "thorough" if ("@deep" in name or r.get("tier") == "thorough") else "quick", 0, only=[name])

"""Engine M: facts about `main` read from the nightly MIR dump of /repo's *current* sources and decided
with z3: which signals are handed to signal_hook::flag::register (C18) and that the dispatch to
generate_code is guarded by check_mode == false (C04)."""
import os
import re
import shutil
import subprocess
import tempfile
import time

import z3

VERIF = os.path.dirname(os.path.dirname(os.path.abspath(__file__)))
REPO = os.environ.get("BLV_REPO", "/repo")
CACHE = os.path.join(VERIF, ".cache")
SIGNALS = {"SIGHUP": 1, "SIGINT": 2, "SIGQUIT": 3, "SIGILL": 4, "SIGABRT": 6, "SIGFPE": 8, "SIGKILL": 9, "SIGUSR1": 10,
           "SIGSEGV": 11, "SIGUSR2": 12, "SIGPIPE": 13, "SIGALRM": 14, "SIGTERM": 15, "SIGCHLD": 17, "SIGCONT": 18,
           "SIGSTOP": 19, "SIGTSTP": 20, "SIGWINCH": 28}


class MirError(Exception):
    pass


def dump_mir():
    base = os.environ.get("BLV_SCRATCH") or "/var/tmp"
    d = tempfile.mkdtemp(prefix="blv-mir-", dir=base)
    try:
        shutil.copytree(os.path.join(REPO, "src"), os.path.join(d, "src"))
        for f in ("Cargo.toml", "Cargo.lock"):
            shutil.copy(os.path.join(REPO, f), os.path.join(d, f))
        env = dict(os.environ)
        env["CARGO_NET_OFFLINE"] = "true"
        env["CARGO_TARGET_DIR"] = os.path.join(CACHE, "mir-target")
        env.pop("RUSTFLAGS", None)
        p = subprocess.run(["cargo", "+nightly", "rustc", "--offline", "--bin", "breadlog", "--", "-Zunpretty=mir",
                            "-C", "debug-assertions=off"], cwd=d, env=env, stdout=subprocess.PIPE, stderr=subprocess.PIPE,
                           text=True, timeout=900)
        if p.returncode != 0 or "fn main(" not in p.stdout:
            raise MirError("MIR dump failed: %s" % p.stderr[-800:])
        return p.stdout
    finally:
        shutil.rmtree(d, ignore_errors=True)


class Block:
    def __init__(self, name, cleanup):
        self.name = name
        self.cleanup = cleanup
        self.stmts = []
        self.term = ""
        self.succ = []  # (label, target)


def parse_main(mir):
    m = re.search(r"^fn main\(\) -> [^\n]*\{\n(.*?)^\}", mir, flags=re.M | re.S)
    if not m:
        raise MirError("fn main not found in the MIR dump")
    body = m.group(1)
    blocks = {}
    order = []
    for bm in re.finditer(r"^    (bb\d+)( \(cleanup\))?: \{\n(.*?)^    \}", body, flags=re.M | re.S):
        b = Block(bm.group(1), bool(bm.group(2)))
        lines = [l.strip() for l in bm.group(3).splitlines() if l.strip()]
        b.stmts = lines[:-1]
        b.term = lines[-1]
        t = b.term
        mm = re.search(r"-> \[(.*)\];$", t)
        if mm:
            for part in mm.group(1).split(", "):
                if ": " not in part:
                    continue
                lab, tgt = part.split(": ", 1)
                if tgt.startswith("bb"):
                    b.succ.append((lab.strip(), tgt.strip()))
        else:
            mm = re.search(r"-> (bb\d+);$", t)
            if mm:
                b.succ.append(("goto", mm.group(1)))
        blocks[b.name] = b
        order.append(b.name)
    if not blocks:
        raise MirError("no basic blocks parsed")
    return blocks, order


def definitions(blocks):
    """local -> list of right-hand sides (statements and call terminators)"""
    defs = {}
    for b in blocks.values():
        for s in b.stmts + [b.term]:
            mm = re.match(r"(_\d+) = (.*?)(?: -> .*)?;?$", s)
            if mm:
                defs.setdefault(mm.group(1), []).append((b.name, mm.group(2).rstrip(";")))
    return defs


def context_field_index(field):
    with open(os.path.join(REPO, "src/config/context.rs")) as f:
        src = f.read()
    m = re.search(r"pub struct Context\s*\{(.*?)\n\}", src, flags=re.S)
    if not m:
        raise MirError("struct Context not found")
    fields = re.findall(r"^\s*pub (\w+)\s*:", m.group(1), flags=re.M)
    if field not in fields:
        raise MirError("field %s not in Context" % field)
    return fields.index(field)


def reach_terms(blocks, order, entry, edge_cond, forbid=()):
    """least-fixpoint reachability as z3 terms (|blocks| rounds of relaxation)"""
    R = {b: z3.BoolVal(b == entry) for b in order}
    preds = {b: [] for b in order}
    for b in order:
        if b in forbid:
            continue
        for lab, tgt in blocks[b].succ:
            if lab == "unwind":
                continue
            preds[tgt].append((b, lab))
    for _ in range(len(order)):
        N = {}
        for b in order:
            terms = [R[b]]
            for p, lab in preds[b]:
                terms.append(z3.And(R[p], edge_cond(p, lab, b)))
            N[b] = z3.simplify(z3.Or(*terms))
        R = N
    return R


MUTATING = re.compile(
    r"^(?:std|async_std)::(?:fs|os::unix::fs)::(?:write|remove_file|remove_dir|remove_dir_all|rename|copy|create_dir|create_dir_all|"
    r"set_permissions|hard_link|symlink|soft_link|File::create|File::create_new|File::options|File::set_len|OpenOptions::\w+|"
    r"DirBuilder::\w+)\b|^tempfile::|^std::process::Command::")


def split_functions(mir):
    """{definition name: body text} for every fn of the dump"""
    out = {}
    for m in re.finditer(r"^fn (.+?)\((?:.*?)\) -> [^\n]*\{\n(.*?)^\}", mir, flags=re.M | re.S):
        out[m.group(1)] = m.group(2)
    for m in re.finditer(r"^fn (.+?)\((?:.*?)\) \{\n(.*?)^\}", mir, flags=re.M | re.S):
        out.setdefault(m.group(1), m.group(2))
    return out


def impl_type(name):
    """type an `<impl at file:line..>` definition belongs to, read from the source"""
    m = re.search(r"<impl at (src/[^:]+):(\d+):", name)
    if not m:
        return None
    try:
        with open(os.path.join(REPO, m.group(1))) as f:
            lines = f.read().splitlines()
    except OSError:
        return None
    txt = " ".join(lines[int(m.group(2)) - 1:int(m.group(2)) + 3])
    txt = txt.split("{")[0]
    mm = re.search(r"\bfor\s+([A-Za-z_]\w*)", txt)
    if mm:
        return mm.group(1)
    mm = re.search(r"impl(?:<[^>]*>)?\s+([A-Za-z_]\w*)", txt)
    return mm.group(1) if mm else None


def strip_generics(t):
    out = []
    depth = 0
    i = 0
    while i < len(t):
        if t.startswith("::<", i) and depth == 0:
            depth = 1
            i += 3
            continue
        c = t[i]
        if depth:
            if c == "<":
                depth += 1
            elif c == ">":
                depth -= 1
            i += 1
            continue
        out.append(c)
        i += 1
    return "".join(out)


def call_targets(body):
    """callee texts of every call terminator in a body"""
    out = []
    for line in body.splitlines():
        line = line.strip()
        if " -> [" not in line or " = " not in line:
            continue
        rhs = line.split(" = ", 1)[1]
        m = re.match(r"(.+?)\((?:.*)\) -> \[", rhs)
        if m and not rhs.startswith(("const ", "move ", "copy ", "&")):
            out.append(m.group(1))
    return out


def check_mode_call_graph(mir, blocks, order, cm_switch):
    """(violations, reachable definitions) for: no mutating file-system call is reachable with --check"""
    funcs = split_functions(mir)
    keys = {}
    for name in funcs:
        base = name.split("::{closure")[0]
        meth = base.split("::")[-1]
        typ = impl_type(base)
        keys[name] = (typ, meth)
    generic_fn = "process_references"

    def resolve(target):
        """definitions a callee text may denote (over-approximation by type and method name)"""
        t = target.strip()
        m = re.match(r"<\{async fn body of (.+?)[<}]", t) or re.match(r"Pin::<&mut \{async fn body of (.+?)[<}]", t)
        if m:
            t = m.group(1)
        m = re.match(r"<(.+?) as .+>::(\w+)", t)
        if m:
            typ, meth = strip_generics(m.group(1)).split("::")[-1], m.group(2)
        else:
            t = strip_generics(t)
            segs = [x for x in t.split("::") if x]
            if not segs:
                return []
            meth = segs[-1]
            typ = segs[-2] if len(segs) > 1 and segs[-2][:1].isupper() else None
        res = []
        for name, (ktyp, kmeth) in keys.items():
            if "::{closure" in name:
                continue
            if kmeth != meth:
                continue
            if typ is not None and ktyp is not None and typ != ktyp:
                continue
            if typ is None and ktyp is not None:
                continue
            if typ is not None and ktyp is None:
                continue
            res.append(name)
        return res

    def successors(name, body):
        succ = set()
        for other in funcs:
            if other.startswith(name + "::{closure"):
                succ.add(other)
        muts = []
        for tgt in call_targets(body):
            plain = strip_generics(tgt)
            if MUTATING.search(plain) or MUTATING.search(re.sub(r"^<\{async fn body of ", "", tgt)):
                muts.append(tgt)
            if tgt.startswith("<ProcessorType as "):
                continue  # resolved at the call sites of the generic function
            m = re.match(r"%s::<(\w+)" % generic_fn, tgt)
            if m:
                proc = m.group(1)
                for nm, (ktyp, kmeth) in keys.items():
                    if ktyp == proc and kmeth in ("map", "reduce") and "::{closure" not in nm:
                        succ.add(nm)
            for r in resolve(tgt):
                succ.add(r)
        return succ, muts

    # seeds: calls in the blocks of main reachable with check_mode == true
    cm = z3.BoolVal(True)

    def cond(p, lab, tgt):
        if p == cm_switch:
            return z3.BoolVal(False) if lab == "0" else z3.BoolVal(True)
        return z3.BoolVal(True)
    R = reach_terms(blocks, order, order[0], cond)
    main_body = "\n".join(blocks[b].term for b in order if z3.is_true(z3.simplify(R[b])))
    seen = {}
    work = []
    s0, m0 = successors("main", main_body)
    viol = [("main", m) for m in m0]
    for x in s0:
        seen[x] = "main"
        work.append(x)
    while work:
        f = work.pop()
        succ, muts = successors(f, funcs[f])
        for m in muts:
            chain = [f]
            while seen.get(chain[-1]) and seen[chain[-1]] != "main":
                chain.append(seen[chain[-1]])
            viol.append((" <- ".join(chain + ["main"]), m))
        for x in succ:
            if x not in seen:
                seen[x] = f
                work.append(x)
    return viol, sorted(seen)


def analyse():
    t0 = time.time()
    mir = dump_mir()
    blocks, order = parse_main(mir)
    defs = definitions(blocks)
    out = {"results": [], "errors": [], "wall_s": 0, "blocks": len(blocks)}
    # ---------------------------------------------------------------- C04: dispatch guarded by check_mode
    try:
        idx = context_field_index("check_mode")
        cm_locals = [l for l, ds in defs.items() if any(re.fullmatch(r"copy \(_\d+\.%d: bool\)" % idx, d) for _b, d in ds)]
        sw = None
        for b in order:
            mm = re.match(r"switchInt\(move (_\d+)\)", blocks[b].term)
            if mm and mm.group(1) in cm_locals:
                sw = b
        gen = [b for b in order if re.search(r"= (?:\w+::)*generate_code\(", blocks[b].term)]
        chk = [b for b in order if re.search(r"= (?:\w+::)*check_references\(", blocks[b].term)]
        if sw is None or len(gen) != 1 or len(chk) != 1:
            raise MirError("dispatch shape not recognised (switch on check_mode: %s, generate_code calls: %d, check_references calls: %d)"
                           % (sw, len(gen), len(chk)))
        cm = z3.Bool("check_mode")

        def cond(p, lab, tgt):
            if p == sw:
                return z3.Not(cm) if lab == "0" else cm
            return z3.BoolVal(True)
        R = reach_terms(blocks, order, order[0], cond)
        s = z3.Solver()
        t1 = time.time()
        s.add(R[gen[0]], cm)
        v1 = str(s.check())
        s2 = z3.Solver()
        s2.add(R[gen[0]], z3.Not(cm))
        twin = str(s2.check())
        s3 = z3.Solver()
        s3.add(R[chk[0]], z3.Not(cm))
        v3 = str(s3.check())
        ok = v1 == "unsat" and v3 == "unsat" and twin == "sat"
        out["results"].append({"name": "m-c04-dispatch", "verdict": "holds" if ok else ("violated" if v1 == "sat" else "inconclusive"),
                               "seconds": round(time.time() - t1, 3), "twin": twin,
                               "bound": "CFG of main (%d blocks) from the MIR dump; check_mode symbolic, every other branch nondeterministic" % len(blocks),
                               "witness": None if ok else {"text": None, "why": "generate_code is reachable with check_mode == true"},
                               "note": "generate_code reachable with check_mode: %s; check_references reachable without: %s" % (v1, v3)})
        t2 = time.time()
        viol, reach = check_mode_call_graph(mir, blocks, order, sw)
        must = ["check_references", "load_code", "process_references"]
        missing = [m for m in must if not any(r.split("::")[-1] == m for r in reach)]
        if missing:
            raise MirError("call graph does not reach %s from main in check mode: the dump no longer has the expected shape" % missing)
        out["results"].append({"name": "m-c04-no-mutating-calls", "verdict": "holds" if not viol else "violated",
                               "seconds": round(time.time() - t2, 3), "twin": "n/a",
                               "bound": "call graph of the crate's MIR (%d definitions reachable from main with check_mode == true; trait calls "
                                        "inside the generic process_references resolved at its call sites; closures and async bodies follow their "
                                        "parent); mutating = std/async_std fs write/remove/rename/copy/create/set_permissions/OpenOptions, tempfile, "
                                        "process::Command" % len(reach),
                               "witness": None if not viol else {"text": None, "calls": viol[:5],
                                                                 "why": "a file-system mutating call is reachable in check mode: %s in %s" % (viol[0][1], viol[0][0])},
                               "note": "reachable definitions: %d" % len(reach), "reachable": reach[:60]})
    except MirError as e:
        out["errors"].append("m-c04-dispatch: %s" % e)
        out["errors"].append("m-c04-no-mutating-calls: %s" % e)
    # ---------------------------------------------------------------- C18: registered signals
    try:
        regs = [b for b in order if re.search(r"= signal_hook::flag::register\(", blocks[b].term)]
        if not regs:
            raise MirError("no call to signal_hook::flag::register in main")
        values = []  # z3 32-bit terms

        def const_val(tok):
            mm = re.fullmatch(r"const (?:\w+::)*(SIG\w+)", tok.strip())
            if mm and mm.group(1) in SIGNALS:
                return z3.BitVecVal(SIGNALS[mm.group(1)], 32)
            mm = re.fullmatch(r"const (\d+)_i32", tok.strip())
            if mm:
                return z3.BitVecVal(int(mm.group(1)), 32)
            return None

        def resolve(operand, depth=0):
            operand = operand.strip()
            cv = const_val(operand)
            if cv is not None:
                return [cv]
            mm = re.fullmatch(r"(?:copy|move) (_\d+)", operand)
            if not mm or depth > 8:
                raise MirError("cannot resolve register() argument %r" % operand)
            ds = defs.get(mm.group(1), [])
            if len(ds) != 1:
                raise MirError("register() argument %s has %d definitions" % (mm.group(1), len(ds)))
            blk, rhs = ds[0]
            m2 = re.fullmatch(r"(BitOr|BitAnd|BitXor|Add)\((.*), (.*)\)", rhs)
            if m2:
                a = resolve(m2.group(2), depth + 1)
                b = resolve(m2.group(3), depth + 1)
                op = {"BitOr": lambda x, y: x | y, "BitAnd": lambda x, y: x & y, "BitXor": lambda x, y: x ^ y,
                      "Add": lambda x, y: x + y}[m2.group(1)]
                return [op(x, y) for x in a for y in b]
            if re.fullmatch(r"(?:copy|move) _\d+", rhs) or const_val(rhs) is not None:
                return resolve(rhs, depth + 1)
            m2 = re.fullmatch(r"copy \(\((_\d+) as Some\)\.0: i32\)", rhs)
            if m2:
                # element of an iterated array literal
                it = defs.get(m2.group(1), [])
                if len(it) != 1 or "as Iterator>::next(" not in it[0][1]:
                    raise MirError("loop variable does not come from Iterator::next")
                next_blk = it[0][0]
                arrs = [rhs2 for l, ds2 in defs.items() for _b, rhs2 in ds2 if re.fullmatch(r"\[(const [^\],]+(, )?)+\]", rhs2)]
                if len(arrs) != 1:
                    raise MirError("expected exactly one array literal of constants in main, found %d" % len(arrs))
                elems = [const_val(x) for x in arrs[0][1:-1].split(", ")]
                if any(e is None for e in elems):
                    raise MirError("array literal %s has elements that are not known signal constants" % arrs[0])
                # every element reaches register(): with the register block removed, the loop head is
                # not reachable from the Some-branch
                R = reach_terms(blocks, order, blk, lambda p, lab, t: z3.BoolVal(True), forbid=regs)
                s = z3.Solver()
                s.add(R[next_blk])
                if str(s.check()) != "unsat":
                    raise MirError("an iteration can reach the next one without calling register()")
                return elems
            raise MirError("unrecognised definition of the register() argument: %s" % rhs)
        for b in regs:
            arg = re.search(r"register\(([^,]+),", blocks[b].term).group(1)
            values += resolve(arg)
        t1 = time.time()
        missing = []
        for name in ("SIGINT", "SIGTERM"):
            s = z3.Solver()
            s.add(z3.Not(z3.Or(*[v == SIGNALS[name] for v in values])))
            if str(s.check()) != "unsat":
                missing.append(name)
        regvals = sorted({z3.simplify(v).as_long() for v in values})
        out["results"].append({"name": "m-c18-signals", "verdict": "holds" if not missing else "violated",
                               "seconds": round(time.time() - t1, 3), "twin": "n/a",
                               "bound": "argument expressions of every signal_hook::flag::register call in main's MIR, evaluated as 32-bit vectors",
                               "witness": None if not missing else {"text": None, "missing": missing, "registered": regvals,
                                                                    "why": "signal(s) %s are not registered (registered numbers: %s)" % (missing, regvals)},
                               "note": "registered signal numbers: %s" % regvals,
                               "expect": {"kind": "signal", "missing": missing}})
        # every other signal-hook registration in main: handlers that restore or emulate the default action
        # make a later signal terminate the process
        others = []
        for b in order:
            mm = re.search(r"= ((?:[\w]+::)*(?:register_conditional_default|register_conditional_shutdown|emulate_default_handler|"
                           r"register_sigaction|register_signal_unchecked|register_unchecked|raise|abort))(?:::<.*?>)?\(", blocks[b].term)
            if mm:
                others.append(mm.group(1))
            mm = re.search(r"= (signal_hook::[\w:]+?)(?:::<.*?>)?\(", blocks[b].term)
            if mm and mm.group(1) != "signal_hook::flag::register" and mm.group(1) not in others:
                others.append(mm.group(1))
        out["results"].append({"name": "m-c18-only-flag-handlers", "verdict": "holds" if not others else "violated",
                               "seconds": 0.0, "twin": "n/a",
                               "bound": "every call into signal_hook in main's MIR",
                               "witness": None if not others else {"text": None, "calls": others,
                                                                   "why": "main also installs %s: a further signal is no longer just recorded" % others},
                               "note": "signal-hook calls other than flag::register: %s" % others,
                               "expect": {"kind": "double_signal"}})
    except MirError as e:
        out["errors"].append("m-c18-signals: %s" % e)
    # ---------------------------------------------------------------- C16: defaults
    try:
        funcs = split_functions(mir)

        def const_return(fn):
            body = funcs.get(fn)
            if body is None:
                raise MirError("default function %s not found in the MIR dump" % fn)
            vals = re.findall(r"_0 = const (\w+);", body)
            if len(vals) != 1 or "switchInt" in body:
                raise MirError("%s does not simply return a constant" % fn)
            return vals[0] == "true"
        uc = z3.BoolVal(const_return("default_use_cache"))
        st = z3.BoolVal(const_return("default_rust_structured"))
        ext_body = funcs.get("default_rust_extensions")
        if ext_body is None:
            raise MirError("default_rust_extensions not found")
        exts = re.findall(r'= const "([^"]*)";', ext_body)
        with open(os.path.join(REPO, "src/config/context.rs")) as f:
            ctx_src = f.read().split("#[cfg(test)]")[0]

        def field_attr(struct, field):
            m = re.search(r"pub struct %s\s*\{(.*?)\n\}" % struct, ctx_src, flags=re.S)
            if not m:
                raise MirError("struct %s not found" % struct)
            mm = re.search(r"((?:\s*(?:///[^\n]*|#\[[^\n]*\])\n)*)\s*pub %s\s*:" % field, m.group(1))
            if not mm:
                raise MirError("field %s.%s not found" % (struct, field))
            return re.findall(r"#\[serde\((.*?)\)\]", mm.group(1))
        wiring = {
            "Config.use_cache": field_attr("Config", "use_cache") == ['default = "default_use_cache"'],
            "RustConfig.structured": field_attr("RustConfig", "structured") == ['default = "default_rust_structured"'],
            "RustConfig.extensions": field_attr("RustConfig", "extensions") == ['default = "default_rust_extensions"'],
            "Config.source_dir has no default (a configuration without it is invalid)": field_attr("Config", "source_dir") == [],
            "Cache.next_reference_id has no default (a lock without it cannot be parsed)": field_attr("Cache", "next_reference_id") == [],
        }
        s_ = z3.Solver()
        s_.add(z3.Not(z3.And(uc, z3.Not(st))))
        consts_ok = str(s_.check()) == "unsat" and exts == ["rs"]
        bad = [k for k, v in wiring.items() if not v]
        ok = consts_ok and not bad
        out["results"].append({"name": "m-c16-defaults", "verdict": "holds" if ok else "violated", "seconds": 0.0, "twin": "n/a",
                               "bound": "MIR of the three serde default functions (constants returned) and the #[serde(..)] attributes of the "
                                        "Config/RustConfig/Cache fields in src/config/context.rs; serde's own behaviour is trusted",
                               "witness": None if ok else {"text": None, "why": "defaults differ from the guide: use_cache=%s structured=%s extensions=%s; wiring problems: %s"
                                                           % (z3.is_true(uc), z3.is_true(st), exts, bad)},
                               "note": "use_cache default %s, structured default %s, extensions default %s" % (z3.is_true(uc), z3.is_true(st), exts),
                               "expect": {"kind": "defaults"}})
    except MirError as e:
        out["errors"].append("m-c16-defaults: %s" % e)
    out["wall_s"] = round(time.time() - t0, 2)
    return out


if __name__ == "__main__":
    import json
    print(json.dumps(analyse(), indent=1, default=str))

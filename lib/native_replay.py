"""Replay of Engine S witnesses on the real code: the witness text is given to the real find()
(native runner built from /repo's current sources) and the property's oracle is evaluated on what
the real code returns.  Only a witness that reproduces becomes a VIOLATION."""
import re

import native

_runner = None


def runner():
    global _runner
    if _runner is None:
        _runner = native.Runner()
    return _runner


def b(text, i):
    return len(text[:i].encode("utf-8"))


def comment_regions(text):
    """byte ranges of // and (nested) /* */ comments; quotes are not interpreted (the queries keep them
    out of the prefix)"""
    regions = []
    i = 0
    n = len(text)
    while i < n:
        if text.startswith("//", i):
            j = text.find("\n", i)
            j = n if j < 0 else j
            regions.append((b(text, i), b(text, j)))
            i = j
        elif text.startswith("/*", i):
            depth = 1
            j = i + 2
            while j < n and depth:
                if text.startswith("/*", j):
                    depth += 1
                    j += 2
                elif text.startswith("*/", j):
                    depth -= 1
                    j += 2
                else:
                    j += 1
            if depth:
                return regions  # unterminated: not a comment
            regions.append((b(text, i), b(text, j)))
            i = j
        elif text[i] in "\"'":
            return regions
        else:
            i += 1
    return regions


def replay_double_signal():
    """two stop signals in a row while the real binary scans a large tree: it must still exit by itself"""
    import os
    import shutil
    import signal
    import subprocess
    import tempfile
    import time
    binary = native.build_binary("debug")
    d = tempfile.mkdtemp(prefix="blv-sig2-", dir=os.environ.get("BLV_SCRATCH") or "/var/tmp")
    try:
        os.makedirs(os.path.join(d, "src"))
        for i in range(6000):
            with open(os.path.join(d, "src", "f%d.rs" % i), "w") as f:
                f.write('fn f%d(){ info!("a"); }\n' % i)
        with open(os.path.join(d, "Breadlog.yaml"), "w") as f:
            f.write("source_dir: src\nuse_cache: false\nrust:\n  log_macros:\n    - module: log\n      name: info\n")
        for first, second in ((signal.SIGINT, signal.SIGTERM), (signal.SIGTERM, signal.SIGTERM), (signal.SIGINT, signal.SIGINT)):
            p = subprocess.Popen([binary, "--config", os.path.join(d, "Breadlog.yaml"), "--check"], stdout=subprocess.DEVNULL,
                                 stderr=subprocess.DEVNULL)
            time.sleep(0.25)
            p.send_signal(first)
            p.send_signal(second)
            rc = p.wait(timeout=120)
            if rc < 0:
                return {"reproduced": True, "exit_status": rc, "signals": [int(first), int(second)],
                        "why": "process was killed by the second signal"}
        # an edit run: the second signal must not end the process before the lock covers what was written
        import glob
        import re as _re
        with open(os.path.join(d, "Breadlog.yaml"), "w") as f:
            f.write("source_dir: src\nuse_cache: true\nrust:\n  log_macros:\n    - module: log\n      name: info\n")
        lock = os.path.join(d, "Breadlog.lock")
        for first, second in ((signal.SIGINT, signal.SIGTERM), (signal.SIGTERM, signal.SIGINT)):
            for fn in glob.glob(os.path.join(d, "src", "*.rs")):
                with open(fn, "w") as f:
                    f.write('fn f(){ info!("a"); }\n')
            with open(lock, "w") as f:
                f.write("next_reference_id: 1\n")
            p = subprocess.Popen([binary, "--config", os.path.join(d, "Breadlog.yaml")], stdout=subprocess.DEVNULL,
                                 stderr=subprocess.DEVNULL)
            t0 = time.time()
            probe = [os.path.join(d, "src", "f%d.rs" % i) for i in range(0, 6000, 50)]
            started = False
            while time.time() - t0 < 30 and p.poll() is None and not started:
                for fn in probe:
                    try:
                        if "[ref:" in open(fn).read():
                            started = True
                            break
                    except OSError:
                        pass
            if p.poll() is None:
                p.send_signal(first)
                p.send_signal(second)
            rc = p.wait(timeout=300)
            if rc < 0:
                return {"reproduced": True, "exit_status": rc, "signals": [int(first), int(second)],
                        "why": "edit run was killed by the second signal"}
            ids = []
            for fn in glob.glob(os.path.join(d, "src", "*.rs")):
                ids += [int(x) for x in _re.findall(r"\[ref: (\d+)\]", open(fn).read())]
            m = _re.search(r"next_reference_id:\s*(\d+)", open(lock).read()) if os.path.exists(lock) else None
            nxt = int(m.group(1)) if m else None
            if ids and (nxt is None or nxt <= max(ids)):
                return {"reproduced": True, "exit_status": rc, "signals": [int(first), int(second)],
                        "ids_written": len(ids), "max_id": max(ids), "lock_next": nxt,
                        "why": "after two signals in a row the edit run ended (status %d) with ids up to %d on disk and the lock at %s: "
                               "the second signal ended the process before the lock was written" % (rc, max(ids), nxt)}
        return {"reproduced": False, "why": "process exited by itself after two signals in a row, the lock covering every id written"}
    finally:
        shutil.rmtree(d, ignore_errors=True)


def replay_defaults():
    """the real binary on a minimal configuration (only source_dir and one macro) and on a lock without the key"""
    import os
    import re as _re
    import shutil
    import subprocess
    import tempfile
    binary = native.build_binary("debug")
    d = tempfile.mkdtemp(prefix="blv-def-", dir=os.environ.get("BLV_SCRATCH") or "/var/tmp")
    try:
        os.makedirs(os.path.join(d, "src"))
        with open(os.path.join(d, "src", "a.rs"), "w") as f:
            f.write('fn f(){ info!("[ref: 7] a"); info!(k = 1; "b"); }\n')
        with open(os.path.join(d, "src", "a.txt"), "w") as f:
            f.write('fn f(){ info!("c"); }\n')
        with open(os.path.join(d, "Breadlog.yaml"), "w") as f:
            f.write("source_dir: src\nrust:\n  log_macros:\n    - module: log\n      name: info\n")
        problems = []
        p = subprocess.run([binary, "--config", os.path.join(d, "Breadlog.yaml")], stdout=subprocess.PIPE, stderr=subprocess.STDOUT, text=True)
        a = open(os.path.join(d, "src", "a.rs")).read()
        if '"[ref: 8] b"' not in a:
            problems.append("omitted `structured`/scan path did not give the message style with id 8: %r" % a)
        if open(os.path.join(d, "src", "a.txt")).read().count("ref") != 0:
            problems.append("omitted `extensions` edited a .txt file")
        lock = os.path.join(d, "Breadlog.lock")
        if not os.path.exists(lock) or not _re.search(r"next_reference_id:\s*9", open(lock).read()):
            problems.append("omitted `use_cache` did not write the lock with 9")
        # a lock without the key cannot be parsed: the scan is used
        with open(lock, "w") as f:
            f.write("# nothing\n{}\n")
        with open(os.path.join(d, "src", "b.rs"), "w") as f:
            f.write('fn g(){ info!("d"); }\n')
        subprocess.run([binary, "--config", os.path.join(d, "Breadlog.yaml")], stdout=subprocess.PIPE, stderr=subprocess.STDOUT, text=True)
        b = open(os.path.join(d, "src", "b.rs")).read()
        if '"[ref: 9] d"' not in b:
            problems.append("a lock without next_reference_id was not ignored: %r" % b)
        return {"reproduced": bool(problems), "problems": problems,
                "why": "; ".join(problems) if problems else "the real binary behaves as the guide says on the minimal configuration"}
    finally:
        shutil.rmtree(d, ignore_errors=True)


def replay_signal(missing):
    """send the unregistered signal to the real binary while it scans a large tree"""
    import os
    import shutil
    import signal
    import subprocess
    import tempfile
    import time
    binary = native.build_binary("debug")
    d = tempfile.mkdtemp(prefix="blv-sig-", dir=os.environ.get("BLV_SCRATCH") or "/var/tmp")
    try:
        os.makedirs(os.path.join(d, "src"))
        for i in range(4000):
            with open(os.path.join(d, "src", "f%d.rs" % i), "w") as f:
                f.write('fn f%d(){ info!("a"); }\n' % i)
        with open(os.path.join(d, "Breadlog.yaml"), "w") as f:
            f.write("source_dir: src\nuse_cache: false\nrust:\n  log_macros:\n    - module: log\n      name: info\n")
        signo = {"SIGINT": signal.SIGINT, "SIGTERM": signal.SIGTERM}[missing[0]]
        p = subprocess.Popen([binary, "--config", os.path.join(d, "Breadlog.yaml"), "--check"], stdout=subprocess.DEVNULL,
                             stderr=subprocess.DEVNULL)
        time.sleep(0.3)
        p.send_signal(signo)
        rc = p.wait(timeout=120)
        return {"reproduced": rc == -signo, "exit_status": rc, "signal": missing[0],
                "why": "process was killed by the signal" if rc == -signo else "process exited by itself"}
    finally:
        shutil.rmtree(d, ignore_errors=True)


def replay(prop, r):
    w = r.get("witness") or {}
    text = w.get("text")
    exp = r.get("expect") or {}
    kind = exp.get("kind")
    if kind == "signal":
        try:
            return replay_signal(exp["missing"])
        except Exception as e:  # noqa
            return {"reproduced": False, "why": "signal replay failed: %r" % (e,)}
    if kind == "double_signal":
        try:
            return replay_double_signal()
        except Exception as e:  # noqa
            return {"reproduced": False, "why": "signal replay failed: %r" % (e,)}
    if kind == "defaults":
        try:
            return replay_defaults()
        except Exception as e:  # noqa
            return {"reproduced": False, "why": "defaults replay failed: %r" % (e,)}
    if r.get("name") == "m-c04-no-mutating-calls":
        return {"reproduced": True, "why": "structural fact of the compiled call graph (no input needed): " + str(w.get("why")),
                "calls": w.get("calls")}
    if r.get("name") == "m-c04-dispatch":
        return {"reproduced": True, "why": "structural fact of the compiled CFG (no input needed): " + str(w.get("why"))}
    if text is None:
        return {"reproduced": False, "why": "no concrete witness text"}
    try:
        if kind == "rule":
            got = runner().extract(text)
            m = re.match(r"^\[ref: ([0-9]{1,10})\]", text, flags=re.A)
            want = int(m.group(1)) if m and int(m.group(1)) <= 4294967295 else None
            return {"reproduced": got != want, "real": got, "spec": want, "input": text}
        if kind == "token":
            d0 = exp["digits_at"]
            n = int(text[d0:d0 + exp["ndigits"]])
            got = runner().extract(text)
            m = re.search(r"\[ref: ([0-9]{1,10})\]", text, flags=re.A)
            return {"reproduced": got != n or not m or int(m.group(1)) != n, "real": got, "id": n, "input": text}
        macros = exp.get("macros")
        if macros == "any-name":
            # the decoy's name is whatever the solver chose: configure every identifier-like name followed by `!`
            names = set(re.findall(r"([^\W\d][\w:]*)\s*!", text))
            macros = [("zz", nm) for nm in names] + [("zz", nm.split("::")[-1]) for nm in names] or [("zz", "zz")]
            macros += [(nm.rsplit("::", 1)[0], nm.rsplit("::", 1)[1]) for nm in names if "::" in nm]
        res = runner().find(text, structured=bool(exp.get("structured")), macros=[tuple(m) for m in macros])
        if "panic" in res:
            return {"reproduced": True, "why": "real find() panicked: %s" % res["panic"], "input": text}
        ents = res["entries"]
        poss = [e["pos"] for e in ents]
        info = {"real_entries": [(e["pos"], e["reference"], e["kind"]) for e in ents], "input": text}
        if kind == "no_entries":
            info["reproduced"] = len(ents) > 0
        elif kind == "none_in_comment":
            regs = comment_regions(text)
            info["comment_regions"] = regs
            info["reproduced"] = any(a <= p < z for p in poss for (a, z) in regs)
        elif kind == "entry_at":
            want = b(text, exp["pos"])
            lo = b(text, exp.get("pos_lo", exp["pos"]))
            hi = b(text, exp.get("pos_hi", exp["pos"]))
            hit = [e for e in ents if lo <= e["pos"] <= hi]
            ok = bool(hit)
            if ok and exp.get("entry_kind") == "StructuredNew":
                ok = hit[0]["kind"] == "StructuredNew" and hit[0]["token7"] == exp["token7"]
            if ok and exp.get("entry_kind") == "String":
                ok = hit[0]["kind"] == "String"
            info["expected_pos"] = want
            info["reproduced"] = not ok
        elif kind == "entries_exact":
            want = [b(text, p) for p in exp["positions"]]
            info["expected_positions"] = want
            info["reproduced"] = poss != want
            if not info["reproduced"] and exp.get("kinds"):
                info["expected_kinds"] = exp["kinds"]
                info["real_kinds"] = [e["kind"] for e in ents]
                info["reproduced"] = info["real_kinds"] != exp["kinds"]
            if not info["reproduced"] and exp.get("tokens"):
                info["expected_tokens"] = exp["tokens"]
                info["real_tokens"] = [e["token7"] for e in ents]
                info["reproduced"] = any(w is not None and w != g for w, g in zip(exp["tokens"], info["real_tokens"]))
        elif kind == "existing_ref":
            want = b(text, exp["pos"])
            n = int(text[exp["pos"]:exp["pos"] + exp["digits"]])
            hit = [e for e in ents if e["pos"] == want]
            info["reproduced"] = not (hit and hit[0]["kind"] == "StructuredPreExisting" and hit[0]["reference"] == n)
        elif kind == "unusable_ref":
            want = b(text, exp["pos"])
            hit = [e for e in ents if e["pos"] == want]
            info["reproduced"] = not (hit and hit[0]["kind"] == "StructuredPreExisting" and hit[0]["reference"] is None
                                      and hit[0]["usable"] is False and len(ents) == 1)
        elif kind == "reads_back":
            d0 = exp["digits_at"]
            n = int(text[d0:d0 + exp["ndigits"]])
            info["id"] = n
            info["reproduced"] = not any(e["reference"] == n for e in ents)
        elif kind == "entry_ref":
            n = int(text[exp["digits_at"]:exp["digits_at"] + exp["ndigits"]])
            info["id"] = n
            if exp["has_ref"]:
                info["reproduced"] = not (len(ents) == 1 and ents[0]["reference"] == n)
            else:
                info["reproduced"] = not (len(ents) == 1 and ents[0]["reference"] is None)
        elif kind == "ordered":
            info["reproduced"] = any(p2 <= p1 for p1, p2 in zip(poss, poss[1:])) or any(p > len(text.encode()) for p in poss)
        else:
            return {"reproduced": False, "why": "no native oracle for %r" % kind, "input": text}
        if not info["reproduced"]:
            info["why"] = "the real find() behaves as the property demands on this input"
        return info
    except native.NativeError as e:
        return {"reproduced": False, "why": "native runner failed: %s" % e}


def linecol(text, exp):
    """C05 oracle on a concrete input: reported line/column = those of the insertion offset"""
    import sys, os
    sys.path.insert(0, os.path.join(os.path.dirname(os.path.abspath(__file__)), "..", "smt"))
    import validate
    macros = exp.get("macros")
    if not isinstance(macros, (list, tuple)):
        return []
    res = runner().find(text, structured=bool(exp.get("structured")), macros=[tuple(m) for m in macros])
    if "entries" not in res:
        return []
    return validate.linecol_mismatches(text, res["entries"])
